#!/usr/bin/env python3
"""benigncheck.py <srcroot> <ID>...  -- behaviour-preserving changes (written by sub-agents that saw only the property text):
apply each in a scratch worktree, confirm the pinned suite (193 passed) and the agent's own probe, then run the property's
check and its neighbours against it (VERIF_REPO).  Every check must exit 0: a FAIL or a machinery error here is a false alarm
of my machinery.  Results go to <srcroot>/<ID>/<x>/benign.json and one line per patch to stdout."""
import concurrent.futures as cf, json, os, shutil, subprocess, sys, time
RELATED = {"C01": ["C02", "C09"], "C02": ["C01", "C17"], "C03": ["C18", "C13"], "C04": ["C05", "C07"], "C05": ["C04", "C15"], "C06": ["C07", "C14"],
           "C07": ["C06", "C14"], "C08": ["C17", "C10"], "C09": ["C10", "C01"], "C10": ["C09", "C08"], "C11": ["C03"], "C12": [], "C13": ["C03", "C18"],
           "C14": ["C07", "C06"], "C15": ["C05"], "C16": ["C01", "C17"], "C17": ["C02", "C08"], "C18": ["C03"], "C19": ["C04", "C03"], "C20": ["C01", "C04"]}

def sh(cmd, cwd=None, env=None, timeout=7200):
    e = dict(os.environ); e.update(env or {})
    p = subprocess.run(cmd, shell=True, cwd=cwd, env=e, stdout=subprocess.PIPE, stderr=subprocess.STDOUT, text=True, timeout=timeout)
    return p.returncode, p.stdout

def one(job):
    d, pid, x = job
    name = "%s_%s" % (pid, x)
    wt, out = "/tmp/bn/" + name, "/tmp/bn/out_" + name
    sh("git -C /repo worktree remove --force %s" % wt); shutil.rmtree(out, ignore_errors=True)
    os.makedirs("/tmp/bn", exist_ok=True)
    rc, o = sh("git -C /repo worktree add -q --detach %s HEAD" % wt)
    res = {"patch": d, "property": pid, "when": time.strftime("%Y-%m-%d %H:%M"), "checks": {}}
    try:
        rc, o = sh("git apply %s/patch.diff" % d, cwd=wt)
        if rc != 0:
            rc, o = sh("git apply --3way %s/patch.diff" % d, cwd=wt)
        res["applies"] = rc == 0
        if rc != 0:
            return name, res
        env = {"PYTHONPATH": wt + "/src"}
        rc, o = sh("/venv/bin/python -m pytest -q -p no:cacheprovider --timeout=900 --continue-on-collection-errors 2>&1 | tail -1", cwd=wt, env=env)
        res["suite"] = o.strip()
        if os.path.exists(d + "/probe.py"):
            rc, o = sh("/venv/bin/python %s/probe.py" % d, cwd=wt, env=env, timeout=1200)
            res["probe_exit"] = rc
        sh("find . -name __pycache__ -prune -exec rm -rf {} +", cwd=wt)
        if "193 passed" not in res["suite"] or res.get("probe_exit", 0) != 0:
            res["usable"] = False
            return name, res
        res["usable"] = True
        for c in [pid] + RELATED.get(pid, []):
            rc, o = sh("./check %s --tier quick" % c, cwd="/verif", env={"VERIF_REPO": wt, "VERIF_OUT": out})
            lines = [l[:300] for l in o.splitlines() if l.startswith(("VIOLATION", "PASS", "FAIL", "MACHINERY", "NOTE"))]
            res["checks"][c] = {"exit": rc, "lines": lines[:5]}
            if rc == 2:
                res["checks"][c]["tail"] = o[-1200:]
    finally:
        sh("git -C /repo worktree remove --force %s" % wt); shutil.rmtree(out, ignore_errors=True)
        json.dump(res, open(d + "/benign.json", "w"), indent=1)
    return name, res

def main():
    src, ids = sys.argv[1], sys.argv[2:]
    jobs = [(os.path.join(src, pid, x), pid, x) for pid in ids for x in ("a", "b")
            if os.path.exists(os.path.join(src, pid, x, "patch.diff")) and not os.path.exists(os.path.join(src, pid, x, "benign.json"))]
    with cf.ThreadPoolExecutor(max_workers=3) as ex:
        for name, res in ex.map(one, jobs):
            bad = {c: v["exit"] for c, v in res.get("checks", {}).items() if v["exit"] != 0}
            print(name, "applies" if res.get("applies") else "DOES-NOT-APPLY", res.get("suite", "")[:40], "probe=%s" % res.get("probe_exit"),
                  "ALL-PASS" if res.get("usable") and not bad else ("unusable" if not res.get("usable") else "ALARMS %s" % bad), flush=True)

if __name__ == "__main__":
    main()
