#!/usr/bin/env python3
"""seedbatch.py <srcroot e.g. /tmp/seeds3> <ID>...   run seedcheck for <srcroot>/<ID>/{a,b} under the next free letters, 3 at a time"""
import os, subprocess, sys, concurrent.futures as cf
src, ids = sys.argv[1], sys.argv[2:]
jobs = []
for pid in ids:
    used = {n[3:] for n in os.listdir("/verif/seeded") if n.startswith(pid)}
    letters = [c for c in "abcdefghijklmnopqrstuvwxyz" if c not in used]
    for x in ("a", "b", "c"):
        d = os.path.join(src, pid, x)
        if os.path.exists(os.path.join(d, "patch.diff")) and os.path.exists(os.path.join(d, "demo.py")) and not os.path.exists(os.path.join(d, "done")):
            jobs.append((d, pid + letters.pop(0), pid))
def run(j):
    d, name, pid = j
    p = subprocess.run(["/venv/bin/python", "/verif/tools/seedcheck.py", d, name, pid], stdout=subprocess.PIPE, stderr=subprocess.STDOUT, text=True)
    open(os.path.join(d, "done"), "w").write(name + "\n" + p.stdout[-3000:])
    return name + " <- " + d + ": " + p.stdout.strip().splitlines()[-1][:600] if p.stdout.strip() else name + ": (no output)"
with cf.ThreadPoolExecutor(max_workers=4) as ex:
    for r in ex.map(run, jobs):
        print(r, flush=True)
