#!/usr/bin/env python3
"""Confirm a seeded change and run the registered checks against it.

usage: seedcheck.py <seed-dir containing patch.diff + demo.py [+ notes.md]> <name e.g. C16a> <property id> [check ids...]
 1. scratch worktree of /repo HEAD under /tmp/sc; demo must pass there
 2. apply patch.diff (git apply, falling back to --3way / patch --fuzz); pinned suite must still give 193 passed; demo must fail
 3. run ./check <id> --tier quick for each id with VERIF_REPO=<the patched worktree> and VERIF_OUT=/tmp/sc/out_<name>
    (so /repo and /verif/evidence are not touched; several seedchecks may run side by side)
 4. write /verif/seeded/<name>/{patch.diff,demo.py,notes.md,meta.json}; remove the worktree
"""
import json, os, shutil, subprocess, sys, time

def sh(cmd, cwd=None, env=None, timeout=3600):
    e = dict(os.environ); e.update(env or {})
    p = subprocess.run(cmd, shell=True, cwd=cwd, env=e, stdout=subprocess.PIPE, stderr=subprocess.STDOUT, text=True, timeout=timeout)
    return p.returncode, p.stdout

def apply(patch, tree):
    for cmd in ("git apply %s", "git apply --3way %s", "patch -p1 --fuzz=3 -i %s"):
        rc, out = sh(cmd % patch, cwd=tree)
        if rc == 0:
            return cmd.split()[0] + " " + cmd.split()[1]
        sh("git checkout -- . && git clean -fdq", cwd=tree)
    return None

def main():
    seed, name, pid = sys.argv[1:4]
    seed = os.path.abspath(seed)
    checks = sys.argv[4:] or [pid]
    wt = "/tmp/sc/" + name
    outdir = "/tmp/sc/out_" + name
    sh("git -C /repo worktree remove --force %s" % wt)
    shutil.rmtree(outdir, ignore_errors=True)
    os.makedirs("/tmp/sc", exist_ok=True)
    rc, out = sh("git -C /repo worktree add -q --detach %s HEAD" % wt)
    assert rc == 0, out
    meta = {"name": name, "property": pid, "base_commit": sh("git -C /repo rev-parse --short HEAD")[1].strip(), "when": time.strftime("%Y-%m-%d %H:%M")}
    res = {}
    try:
        env = {"PYTHONPATH": wt + "/src"}
        rc0, out0 = sh("/venv/bin/python %s/demo.py" % seed, cwd=wt, env=env, timeout=900)
        meta["demo_clean_exit"] = rc0
        if rc0 != 0:
            meta["demo_clean_tail"] = out0[-400:]
        how = apply(seed + "/patch.diff", wt)
        meta["applied_with"] = how
        if not how:
            meta["status"] = "patch does not apply on current HEAD"
            print(json.dumps(meta, indent=1)); return 1
        rc, out = sh("/venv/bin/python -m pytest -q -p no:cacheprovider --timeout=900 --continue-on-collection-errors 2>&1 | tail -1", cwd=wt, env=env)
        meta["suite_with_patch"] = out.strip()
        rc1, out1 = sh("/venv/bin/python %s/demo.py" % seed, cwd=wt, env=env, timeout=900)
        meta["demo_patched_exit"] = rc1
        meta["demo_patched_tail"] = out1[-300:]
        sh("git diff > /tmp/sc/%s.diff" % name, cwd=wt)
        sh("find . -name __pycache__ -prune -exec rm -rf {} +", cwd=wt)
        ok = rc0 == 0 and rc1 != 0 and "193 passed" in out
        meta["confirmed"] = ok
        if not ok:
            meta["status"] = "not confirmed"
            print(json.dumps(meta, indent=1)); return 1
        for c in checks:
            t0 = time.time()
            rc, out = sh("./check %s --tier quick" % c, cwd="/verif", env={"VERIF_REPO": wt, "VERIF_OUT": outdir}, timeout=6000)
            lines = [l[:400] for l in out.splitlines() if l.startswith(("VIOLATION", "PASS", "FAIL", "MACHINERY", "KNOWN"))]
            res[c] = {"exit": rc, "detected": rc == 1, "wall_s": round(time.time() - t0), "lines": lines[:6]}
            if rc == 2:
                res[c]["tail"] = out[-1500:]
    finally:
        sh("git -C /repo worktree remove --force %s" % wt)
        shutil.rmtree(outdir, ignore_errors=True)
    meta["checks"] = res
    meta["detected_by"] = [c for c in res if res[c]["detected"]]
    dst = "/verif/seeded/" + name
    os.makedirs(dst, exist_ok=True)
    shutil.copy("/tmp/sc/%s.diff" % name, dst + "/patch.diff")
    os.remove("/tmp/sc/%s.diff" % name)
    if os.path.abspath(dst) != seed:
        shutil.copy(seed + "/demo.py", dst + "/demo.py")
        if os.path.exists(seed + "/notes.md"):
            shutil.copy(seed + "/notes.md", dst + "/notes.md")
    notes = open(dst + "/notes.md").read() if os.path.exists(dst + "/notes.md") else ""
    meta["needs_to_manifest"] = notes[:1200]
    meta["ran"] = ["demo.py on clean worktree (exit %d)" % rc0, "pinned suite with patch: " + meta["suite_with_patch"],
                   "demo.py with patch (exit %d)" % rc1] + ["./check %s --tier quick against the patched worktree (VERIF_REPO) -> exit %d" % (c, res[c]["exit"]) for c in res]
    json.dump(meta, open(dst + "/meta.json", "w"), indent=1)
    print(name, "confirmed; detected by", meta["detected_by"], {c: res[c]["lines"][:2] for c in res})
    return 0

if __name__ == "__main__":
    sys.exit(main())
