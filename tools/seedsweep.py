#!/usr/bin/env python3
"""Re-verify every stored seeded change against the *current* /repo HEAD and the current checks, without touching /repo:
each patch is applied to its own scratch worktree and the checks run with VERIF_REPO pointing there.
usage: seedsweep.py [name-prefix ...]     writes <cwd>/seeded_sweep.json and prints one line per seed"""
import json, os, subprocess, sys, time

HERE = os.path.dirname(os.path.dirname(os.path.abspath(__file__)))
SEEDS = "/verif/seeded"


def sh(cmd, cwd=None, env=None, timeout=3600):
    e = dict(os.environ); e.update(env or {})
    p = subprocess.run(cmd, shell=True, cwd=cwd, env=e, stdout=subprocess.PIPE, stderr=subprocess.STDOUT, text=True, timeout=timeout)
    return p.returncode, p.stdout


def main():
    names = sorted(n for n in os.listdir(SEEDS) if os.path.exists(os.path.join(SEEDS, n, "patch.diff")))
    if sys.argv[1:]:
        names = [n for n in names if any(n.startswith(p) for p in sys.argv[1:])]
    out = {}
    for n in names:
        meta = json.load(open(os.path.join(SEEDS, n, "meta.json")))
        wt = "/tmp/sweep/" + n
        sh("git -C /repo worktree remove --force %s" % wt)
        os.makedirs("/tmp/sweep", exist_ok=True)
        rc, o = sh("git -C /repo worktree add -q --detach %s HEAD" % wt)
        res = {"property": meta["property"], "applies": False}
        try:
            patch = os.path.join(SEEDS, n, "patch.diff")
            for cmd in ("git apply %s", "git apply --3way %s", "patch -p1 --fuzz=3 -i %s"):
                rc, o = sh(cmd % patch, cwd=wt)
                if rc == 0 and sh("git diff --stat", cwd=wt)[1].strip():
                    res["applies"] = True
                    break
                sh("git checkout -- . && git clean -fdq", cwd=wt)
            if res["applies"]:
                env = {"PYTHONPATH": wt + "/src"}
                rc1, _ = sh("/venv/bin/python %s/demo.py" % os.path.join(SEEDS, n), cwd=wt, env=env, timeout=600)
                res["demo_fails_with_patch"] = rc1 != 0
                t0 = time.time()
                rc, o = sh("./check %s --tier quick" % meta["property"], cwd=HERE, env={"VERIF_REPO": wt, "VERIF_OUT": "/tmp/sweep/out_" + n}, timeout=3000)
                res["check_exit"] = rc
                res["detected"] = rc == 1
                res["wall_s"] = round(time.time() - t0)
                res["lines"] = [l[:160] for l in o.splitlines() if l.startswith(("VIOLATION", "PASS", "FAIL", "MACHINERY"))][:3]
        finally:
            sh("git -C /repo worktree remove --force %s" % wt)
        out[n] = res
        print(n, res.get("applies"), res.get("demo_fails_with_patch"), res.get("detected"), res.get("lines", [""])[:1], flush=True)
        json.dump(out, open("seeded_sweep.json", "w"), indent=1)
    nd = sum(1 for r in out.values() if r.get("detected"))
    print("SWEEP: %d seeds, %d apply, %d detected" % (len(out), sum(1 for r in out.values() if r["applies"]), nd))


if __name__ == "__main__":
    main()
