#!/bin/sh
# run every quick check under several seeds; one line per (seed, check); failures keep their log under ./multiseed_logs
cd "$(dirname "$0")/.." || exit 2
mkdir -p multiseed_logs
for seed in ${SEEDS:-1 2 3}; do
  for i in ${CHECKS:-01 02 03 04 05 06 07 08 09 10 11 12 13 14 15 16 17 18 19 20}; do
    VERIF_SEED=$seed VERIF_OUT=$PWD/multiseed_out ./check C$i --tier "${TIER:-quick}" > multiseed_logs/C$i.s$seed.log 2>&1
    rc=$?
    echo "seed=$seed C$i exit=$rc $(grep -E '^(PASS|FAIL|MACHINERY)' multiseed_logs/C$i.s$seed.log | tail -1 | cut -c1-200)"
    [ $rc -eq 0 ] && rm -f multiseed_logs/C$i.s$seed.log
  done
done
