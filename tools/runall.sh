#!/bin/sh
# run every registered quick check once on the current tree; one summary line per check
cd "$(dirname "$0")/.." || exit 2
tier=${1:-quick}
for i in 01 02 03 04 05 06 07 08 09 10 11 12 13 14 15 16 17 18 19 20; do
  ./check C$i --tier "$tier" > /tmp/runall_C$i.log 2>&1
  echo "C$i exit=$? $(grep -E '^(PASS|FAIL|MACHINERY)' /tmp/runall_C$i.log | tail -1 | cut -c1-170)"
done
