--------------------------- MODULE AsyncChannel ---------------------------
(* Faithful model (S1) of betterproto's AsyncChannel on top of CPython 3.12          *)
(* asyncio.Queue / Task / Future, at the grain "one event-loop callback = one       *)
(* atomic step".  The whole state is one record `s` so that the straight-line code  *)
(* between awaits can be written as state -> state operators.  The only             *)
(* nondeterminism is environmental: Wake(t) (task t is released for its next        *)
(* operation), Cancel(t), and the FIFO ready queue is run head first (RunHead).     *)
(* TaskDoneInFinally selects the code variant: TRUE = task_done() inside the        *)
(* finally block of receive/__anext__ (the pinned code, defective under             *)
(* cancellation), FALSE = task_done() only after an item was obtained (repaired).   *)
EXTENDS Naturals, Sequences, FiniteSets, TLC

CONSTANTS Tasks,          \* harness task ids (strings)
          Prog,           \* [Tasks -> Seq(op record)]
          MaxSize,        \* asyncio.Queue maxsize (0 = unbounded)
          FlushIds,       \* Seq of ids for the tasks created by close()
          CancelTargets,  \* tasks that may be cancelled by the environment
          MaxCancels,
          MaxPre,         \* how many gates may be released in advance (0 = none)
          TaskDoneInFinally

FLUSH == 0                \* real items are positive naturals
AllTasks == Tasks \cup {FlushIds[k] : k \in DOMAIN FlushIds}
NoFut == 0

VARIABLE s
vars == <<s>>

Terminal(r) == r \in {"None", "ChannelDone", "StopIter"}
IsLoop(op)  == op.op \in {"recvloop", "iterloop"}

ProgOf(t) == IF t \in Tasks THEN Prog[t] ELSE << [op |-> "flush"] >>

Init ==
  s = [ queue      |-> <<>>,
        getters    |-> <<>>,
        putters    |-> <<>>,
        fst        |-> [t \in AllTasks |-> "none"],  \* state of the one future task t currently awaits
        closed     |-> FALSE,
        flushed    |-> FALSE,
        waiting    |-> 0,
        unfinished |-> 0,
        ready      |-> <<>>,
        pc         |-> [t \in AllTasks |-> IF t \in Tasks THEN [k |-> "gate", i |-> 1]
                                                        ELSE [k |-> "unborn"]],
        must       |-> [t \in AllTasks |-> FALSE],
        pre        |-> [t \in AllTasks |-> 0],
        res        |-> [t \in AllTasks |-> <<>>],
        nflush     |-> 0,
        ncancel    |-> 0,
        sentok     |-> {},                        \* ghost: items whose put completed while ~closed
        putall     |-> {} ]                       \* ghost: all real items ever put

Full(st)  == MaxSize > 0 /\ Len(st.queue) >= MaxSize
Done(st)  == st.closed /\ Len(st.queue) <= st.waiting

(* ---------- futures ---------- *)
NewFut(st, t) == [st EXCEPT !.fst[t] = "pending"]
LastFut(st)   == 0

RECURSIVE WakeupNext(_, _)
\* asyncio.Queue._wakeup_next(waiters): pop left until a not-done future; set_result -> call_soon(waiter wakeup)
WakeupNext(st, which) ==
  LET w == IF which = "g" THEN st.getters ELSE st.putters IN
  IF w = <<>> THEN st
  ELSE LET f   == Head(w)
           st1 == IF which = "g" THEN [st EXCEPT !.getters = Tail(w)]
                                 ELSE [st EXCEPT !.putters = Tail(w)]
       IN IF st.fst[f] = "pending"
          THEN [st1 EXCEPT !.fst[f] = "result", !.ready = Append(@, f)]
          ELSE WakeupNext(st1, which)

RemoveFut(seq, f) == SelectSeq(seq, LAMBDA x : x # f)

(* ---------- task_done() in the finally blocks of receive/__anext__ ---------- *)
\* returns <<state, raisedValueError>>
TaskDone(st) == IF st.unfinished <= 0 THEN <<st, TRUE>>
                ELSE <<[st EXCEPT !.unfinished = @ - 1], FALSE>>

(* ---------- close() ---------- *)
DoClose(st) ==
  LET k == st.nflush + 1
      F == FlushIds[k]
  IN [st EXCEPT !.closed = TRUE, !.nflush = k,
                !.pc[F] = [k |-> "run", i |-> 1],
                !.ready = Append(@, F)]

(* ---------- the harness program: finishing an op, passing a gate ---------- *)
RECURSIVE StartOp(_, _, _), Finish(_, _, _, _, _), PutItem(_, _, _, _, _, _, _), GetItem(_, _, _, _)

Finish(st, t, i, r, v) ==
  LET st1 == [st EXCEPT !.res[t] = Append(@, [i |-> i, r |-> r, v |-> v])]
      ops == ProgOf(t)
      nxt == IF IsLoop(ops[i]) /\ r = "item" THEN i ELSE i + 1
  IN IF nxt > Len(ops) THEN [st1 EXCEPT !.pc[t] = [k |-> "done"]]
     ELSE IF st1.pre[t] > 0
          THEN StartOp([st1 EXCEPT !.pre[t] = @ - 1], t, nxt)     \* gate already released: no yield
          ELSE [st1 EXCEPT !.pc[t] = [k |-> "gate", i |-> nxt]]

\* the tail of receive()/__anext__ once an item has been taken: finally: waiting -= 1; task_done()
TakeHead(st, t, i, mode) ==
  LET item == Head(st.queue)
      st1  == WakeupNext([st EXCEPT !.queue = Tail(@)], "p")         \* get_nowait
      st2  == [st1 EXCEPT !.waiting = @ - 1]
      td   == TaskDone(st2)
  IN IF td[2] THEN Finish(td[1], t, i, "ValueError", 0)
     ELSE IF item = FLUSH THEN Finish(td[1], t, i, IF mode = "recv" THEN "None" ELSE "StopIter", 0)
          ELSE Finish(td[1], t, i, "item", item)

\* await self._queue.get()  (waiting already incremented)
GetItem(st, t, i, mode) ==
  IF st.queue = <<>>
  THEN LET st1 == NewFut(st, t)
       IN [st1 EXCEPT !.getters = Append(@, t),
                      !.pc[t] = [k |-> "getw", i |-> i, mode |-> mode]]
  ELSE TakeHead(st, t, i, mode)

PutNowait(st, item) ==
  WakeupNext([st EXCEPT !.queue = Append(@, item), !.unfinished = @ + 1,
                        !.putall = IF item = FLUSH THEN @ ELSE @ \cup {item},
                        !.sentok = IF item # FLUSH /\ ~st.closed THEN @ \cup {item} ELSE @], "g")

\* await self._queue.put(item); then the continuation selected by ctx
PutItem(st, t, i, item, rest, thenclose, ctx) ==
  IF Full(st)
  THEN LET st1 == NewFut(st, t)
       IN [st1 EXCEPT !.putters = Append(@, t),
                      !.pc[t] = [k |-> "putw", i |-> i, item |-> item, rest |-> rest,
                                 thenclose |-> thenclose, ctx |-> ctx]]
  ELSE LET st1 == PutNowait(st, item) IN
       CASE ctx = "send"     -> Finish(st1, t, i, "ok", 0)
         [] ctx = "sendfrom" -> IF rest = <<>>
                                THEN Finish(IF thenclose THEN DoClose(st1) ELSE st1, t, i, "ok", 0)
                                ELSE PutItem(st1, t, i, Head(rest), Tail(rest), thenclose, ctx)
         [] ctx = "flush"    -> IF rest = 1 THEN Finish(st1, t, i, "ok", 0)    \* rest counts sentinels left incl. this one
                                ELSE PutItem(st1, t, i, FLUSH, rest - 1, FALSE, ctx)

StartOp(st, t, i) ==
  LET op == ProgOf(t)[i] IN
  CASE op.op = "send" ->
         IF st.closed THEN Finish(st, t, i, "ChannelClosed", 0)
         ELSE PutItem(st, t, i, op.item, <<>>, FALSE, "send")
    [] op.op = "sendfrom" ->
         IF st.closed THEN Finish(st, t, i, "ChannelClosed", 0)
         ELSE IF op.items = <<>> THEN Finish(IF op.close THEN DoClose(st) ELSE st, t, i, "ok", 0)
         ELSE PutItem(st, t, i, Head(op.items), Tail(op.items), op.close, "sendfrom")
    [] op.op \in {"recv", "recvloop"} ->
         IF Done(st) THEN Finish(st, t, i, "ChannelDone", 0)
         ELSE GetItem([st EXCEPT !.waiting = @ + 1], t, i, "recv")
    [] op.op \in {"next", "iterloop"} ->
         IF Done(st) THEN Finish(st, t, i, "StopIter", 0)
         ELSE GetItem([st EXCEPT !.waiting = @ + 1], t, i, "next")
    [] op.op = "close" -> Finish(DoClose(st), t, i, "ok", 0)
    [] op.op = "flush" ->
         IF st.flushed THEN Finish(st, t, i, "ok", 0)
         ELSE LET st1 == [st EXCEPT !.flushed = TRUE]
                  n   == IF st.waiting > Len(st.queue) THEN st.waiting - Len(st.queue) ELSE 0
              IN IF n = 0 THEN Finish(st1, t, i, "ok", 0)
                 ELSE PutItem(st1, t, i, FLUSH, n, FALSE, "flush")

(* ---------- resuming after an await ---------- *)
\* the task ends with CancelledError (the harness does not catch it)
EndCancelled(st, t, i) == [st EXCEPT !.res[t] = Append(@, [i |-> i, r |-> "Cancelled", v |-> 0]), !.pc[t] = [k |-> "done"], !.must[t] = FALSE]

ResumeGet(st, t) ==
  LET p == st.pc[t]  f == t IN
  IF st.must[t] \/ st.fst[f] = "cancelled"
  THEN \* CancelledError thrown at `await getter` inside Queue.get()
       LET st0 == [st EXCEPT !.must[t] = FALSE]
           st1 == IF st0.fst[f] = "pending" THEN [st0 EXCEPT !.fst[f] = "cancelled"] ELSE st0   \* getter.cancel()
           st2 == [st1 EXCEPT !.getters = RemoveFut(@, f)]
           st3 == IF st2.queue # <<>> /\ st2.fst[f] # "cancelled" THEN WakeupNext(st2, "g") ELSE st2
           \* finally of receive()/__anext__:
           st4 == [st3 EXCEPT !.waiting = @ - 1]
           td  == IF TaskDoneInFinally THEN TaskDone(st4) ELSE <<st4, FALSE>>
       IN IF td[2] THEN Finish(td[1], t, p.i, "ValueError", 0)      \* ValueError replaces the CancelledError
          ELSE EndCancelled(td[1], t, p.i)
  ELSE \* woken with a result: loop `while self.empty()` again
       GetItem(st, t, p.i, p.mode)

ResumePut(st, t) ==
  LET p == st.pc[t] IN
  \* (senders / the flush task are never cancelled in the explored configurations)
  PutItem(st, t, p.i, p.item, p.rest, p.thenclose, p.ctx)

Exec(st, t) ==
  LET p == st.pc[t] IN
  CASE p.k = "run"  -> IF st.must[t] THEN EndCancelled(st, t, p.i) ELSE StartOp(st, t, p.i)
    [] p.k = "getw" -> ResumeGet(st, t)
    [] p.k = "putw" -> ResumePut(st, t)

(* ---------- actions ---------- *)
RunHead ==
  /\ s.ready # <<>>
  /\ LET t == Head(s.ready) IN s' = Exec([s EXCEPT !.ready = Tail(@)], t)

Wake(t) ==
  /\ t \in Tasks
  /\ \/ /\ s.pc[t].k = "gate"
        /\ s' = [s EXCEPT !.pc[t] = [k |-> "run", i |-> s.pc[t].i], !.ready = Append(@, t)]
     \/ /\ s.pc[t].k \in {"run", "getw", "putw"}
        /\ s.pre[t] < MaxPre
        /\ s' = [s EXCEPT !.pre[t] = @ + 1]

Cancel(t) ==
  /\ t \in CancelTargets
  /\ s.ncancel < MaxCancels
  /\ LET p == s.pc[t]  s0 == [s EXCEPT !.ncancel = @ + 1] IN
     CASE p.k = "gate" -> s' = [s0 EXCEPT !.must[t] = TRUE, !.pc[t] = [k |-> "run", i |-> p.i], !.ready = Append(@, t)]
       [] p.k = "run"  -> s' = [s0 EXCEPT !.must[t] = TRUE]
       [] p.k = "getw" -> IF s.fst[t] = "pending"
                          THEN s' = [s0 EXCEPT !.fst[t] = "cancelled", !.ready = Append(@, t)]
                          ELSE s' = [s0 EXCEPT !.must[t] = TRUE]
       [] OTHER -> FALSE

Next == RunHead \/ (\E t \in Tasks : Wake(t)) \/ (\E t \in CancelTargets : Cancel(t))
Spec == Init /\ [][Next]_vars
FairSpec == Spec /\ WF_vars(RunHead) /\ \A t \in Tasks : WF_vars(Wake(t))

(* ---------- properties ---------- *)
ItemsOf(t) == { s.res[t][j].v : j \in { k \in 1..Len(s.res[t]) : s.res[t][k].r = "item" } }
Received   == UNION { ItemsOf(t) : t \in Tasks }
RecvCount(x) == Cardinality({ tj \in UNION { {<<t, j>> : j \in 1..Len(s.res[t])} : t \in Tasks } :
                               s.res[tj[1]][tj[2]].r = "item" /\ s.res[tj[1]][tj[2]].v = x })

Quiescent == s.ready = <<>> /\ \A t \in Tasks : s.pc[t].k # "gate"
IsReceiver(t) == \E j \in DOMAIN Prog[t] : Prog[t][j].op \in {"recv", "recvloop", "next", "iterloop"}
HasRes(t, r) == \E j \in 1..Len(s.res[t]) : s.res[t][j].r = r
WasCancelled(t) == HasRes(t, "Cancelled") \/ HasRes(t, "ValueError")

NoDuplicate   == \A x \in s.putall : RecvCount(x) <= 1
NoInvention   == Received \subseteq s.putall
NoStranded    == (Quiescent /\ s.closed) => \A t \in Tasks : ~(s.pc[t].k = "getw")
NoValueError  == \A t \in Tasks : ~HasRes(t, "ValueError")
\* without cancellation: receivers that keep receiving until done get everything sent before close
AllDelivered  == (Quiescent /\ s.closed /\ s.ncancel = 0 /\ (\E t \in Tasks : IsReceiver(t) /\ s.pc[t].k = "done"))
                    => s.sentok \subseteq Received
\* always (cancellation included): an item that entered the channel is either received or still queued --
\* never destroyed.  (With a cancelled receiver an item may stay queued after the other receivers saw done():
\* done() counted the cancelled receiver as its consumer.  The channel stays usable: a later receive() gets it.)
NothingDestroyed == s.putall \subseteq (Received \cup { s.queue[k] : k \in 1..Len(s.queue) })
TypeOK        == s.waiting >= 0 /\ s.waiting <= Cardinality(Tasks)

(* per-sender FIFO: items of one sender leave the queue in program order (the queue is taken head first and a
   receive completes in the step that takes its item, so take order = receive order) *)
RECURSIVE SentItems(_, _)
SentItems(ops, j) == IF j > Len(ops) THEN <<>>
                     ELSE (IF ops[j].op = "send" THEN <<ops[j].item>> ELSE IF ops[j].op = "sendfrom" THEN ops[j].items ELSE <<>>)
                          \o SentItems(ops, j + 1)
QPos(x) == IF \E k \in 1..Len(s.queue) : s.queue[k] = x THEN CHOOSE k \in 1..Len(s.queue) : s.queue[k] = x ELSE 0
PerSenderFifo ==
  \A t \in Tasks : LET xs == SentItems(Prog[t], 1) IN
     \A a, b \in 1..Len(xs) : (a < b /\ xs[b] \in s.putall) =>
        /\ (xs[a] \in s.putall => (QPos(xs[b]) = 0 => QPos(xs[a]) = 0))          \* b taken => a taken
        /\ (QPos(xs[a]) > 0 /\ QPos(xs[b]) > 0 => QPos(xs[a]) < QPos(xs[b]))
(* a cancelled receiver ends with the cancellation and nothing else *)
CancelSurfaces == \A t \in CancelTargets : ~HasRes(t, "ValueError")
(* receivers that were not cancelled never see ValueError either (no spurious task_done) *)
NoSpuriousError == \A t \in Tasks \ CancelTargets : ~HasRes(t, "ValueError")
SendAfterClose == \A t \in Tasks : \A j \in 1..Len(s.res[t]) :
                    (s.res[t][j].r = "ChannelClosed") => s.closed
(* liveness: once closed, every receiver task terminates (checked under FairSpec) *)
AllReceiversDone == \A t \in Tasks : IsReceiver(t) => s.pc[t].k = "done"
Termination == (s.closed) ~> AllReceiversDone
=============================================================================
