-------------------------------- MODULE Codec --------------------------------
(***************************************************************************)
(* The protobuf binary format at message level, schema as data: SpecDecode *)
(* is the standard's decoder (last one wins, packed/unpacked/chunked       *)
(* repeated scalars, map entries, explicit presence from occurrence,       *)
(* unknown numbers and wire-type mismatches kept raw in arrival order,     *)
(* groups skipped), Norm puts observed / expected abstract values into the *)
(* decoder's value domain so that they can be compared with =.             *)
(* Written from the encoding specification, not from betterproto's code.   *)
(***************************************************************************)
EXTENDS Wire, TimeConv

(* ------------------------------ schema index ------------------------------ *)
MsgKinds == {"message", "timestamp", "duration", "wrap"}
LenKinds == {"string", "bytes", "map"} \cup MsgKinds
NativeWt(kind) == IF kind \in LenKinds THEN 2 ELSE WireTypeOf(kind)
Packable(kind) == kind \notin LenKinds

ZeroInt == [k |-> "int", neg |-> FALSE, mag |-> <<>>]
Unset == [k |-> "unset"]
KInt(n) == [k |-> "int", neg |-> n.neg, mag |-> n.mag]
ZeroTs == [k |-> "tsn", s |-> Zero, n |-> Zero]
ZeroDur == [k |-> "durn", s |-> Zero, n |-> Zero]
EmptyMap == [k |-> "map", f |-> <<>>]
ScalarDefault(kind) ==
  CASE kind \in IntKinds -> ZeroInt
    [] kind = "bool" -> [k |-> "bool", v |-> FALSE]
    [] kind = "float" -> [k |-> "f32", b |-> <<0, 0, 0, 0>>]
    [] kind = "double" -> [k |-> "f64", b |-> <<0, 0, 0, 0, 0, 0, 0, 0>>]
    [] kind = "string" -> [k |-> "str", u |-> <<>>]
    [] kind = "bytes" -> [k |-> "bytes", b |-> <<>>]
DefaultOf(f) ==
  CASE f.card = "repeated" -> [k |-> "list", xs |-> <<>>]
    [] f.card = "map" -> EmptyMap
    [] f.card \in {"optional", "oneof"} -> Unset
    [] f.kind \in {"message", "wrap"} -> Unset
    [] f.kind = "timestamp" -> ZeroTs
    [] f.kind = "duration" -> ZeroDur
    [] OTHER -> ScalarDefault(f.kind)

FieldNamed(fs, n) == fs[CHOOSE j \in DOMAIN fs : fs[j].name = n]
MkIndex(types) ==
  [ty \in DOMAIN types |->
     LET fs == types[ty]
         names == { fs[j].name : j \in DOMAIN fs } IN
     [ fields |-> fs,
       names  |-> names,
       byname |-> [n \in names |-> FieldNamed(fs, n)],
       bynum  |-> [n \in { fs[j].num : j \in DOMAIN fs } |-> fs[CHOOSE j \in DOMAIN fs : fs[j].num = n]],
       fresh  |-> [n \in names |-> DefaultOf(FieldNamed(fs, n))],
       sibs   |-> [n \in names |-> LET f == FieldNamed(fs, n) IN
                                   IF f.card # "oneof" THEN {}
                                   ELSE { fs[j].name : j \in { i \in DOMAIN fs : fs[i].card = "oneof" /\ fs[i].group = f.group } } \ {n}] ]]

(* ------------------------------ decoding ------------------------------ *)
ScalarOfVarint(kind, raw) == IF kind = "bool" THEN [k |-> "bool", v |-> BoolOfVarint(raw)] ELSE KInt(IntOfVarint(kind, raw))
ScalarOfFixed(kind, pay) ==
  CASE kind = "float" -> [k |-> "f32", b |-> pay]
    [] kind = "double" -> [k |-> "f64", b |-> pay]
    [] OTHER -> KInt(IntOfFixed(kind, pay))

RECURSIVE Unpack(_, _, _, _)
Unpack(kind, pay, p, acc) ==
  IF p > Len(pay) THEN [ok |-> TRUE, xs |-> acc]
  ELSE IF kind \in VarintKinds
       THEN LET v == DecVarint(pay, p) IN
            IF ~v.ok THEN [ok |-> FALSE, xs |-> acc] ELSE Unpack(kind, pay, v.next, Append(acc, ScalarOfVarint(kind, v.val)))
       ELSE LET w == IF kind \in Fixed32Kinds THEN 4 ELSE 8 IN
            IF (p + w) - 1 > Len(pay) THEN [ok |-> FALSE, xs |-> acc]
            ELSE Unpack(kind, pay, p + w, Append(acc, ScalarOfFixed(kind, SubSeq(pay, p, (p + w) - 1))))

\* last occurrence of field number n with wire type wt in a parsed field list (0 if none)
RECURSIVE LastOcc(_, _, _, _)
LastOcc(fs, n, wt, j) == IF j = 0 THEN 0 ELSE IF fs[j].num = n /\ fs[j].wt = wt THEN j ELSE LastOcc(fs, n, wt, j - 1)

RECURSIVE DecodeMsg(_, _, _), Apply(_, _, _, _, _), DecodeSingle(_, _, _, _, _, _)

\* a (seconds = 1, nanos = 2) sub-message
SecNanos(tag, pay) ==
  LET p == ParseFields(pay) IN
  IF ~p.ok THEN [ok |-> FALSE, v |-> Unset]
  ELSE LET js == LastOcc(p.fields, 1, 0, Len(p.fields))  jn == LastOcc(p.fields, 2, 0, Len(p.fields)) IN
       [ok |-> TRUE, v |-> [k |-> tag, s |-> IF js = 0 THEN Zero ELSE IntOfVarint("int64", p.fields[js].v),
                                       n |-> IF jn = 0 THEN Zero ELSE IntOfVarint("int32", p.fields[jn].v)]]

\* one occurrence e of a field of the given kind (wire type already known to fit); b = enclosing buffer
DecodeSingle(idx, f, kind, e, b, depth) ==
  CASE e.wt = 0 -> [ok |-> TRUE, v |-> ScalarOfVarint(kind, e.v)]
    [] e.wt \in {1, 5} -> [ok |-> TRUE, v |-> ScalarOfFixed(kind, Slice(b, e.ps, e.pe))]
    [] kind = "string" -> [ok |-> TRUE, v |-> [k |-> "str", u |-> Slice(b, e.ps, e.pe)]]
    [] kind = "bytes" -> [ok |-> TRUE, v |-> [k |-> "bytes", b |-> Slice(b, e.ps, e.pe)]]
    [] kind = "message" -> (LET m == DecodeMsg(idx, f.msg, Slice(b, e.ps, e.pe)) IN
                            [ok |-> m.ok, v |-> [k |-> "msg", m |-> m.val, unk |-> m.unk]])
    [] kind = "timestamp" -> SecNanos("tsn", Slice(b, e.ps, e.pe))
    [] kind = "duration" -> SecNanos("durn", Slice(b, e.ps, e.pe))
    [] kind = "wrap" -> (LET pay == Slice(b, e.ps, e.pe)  p == ParseFields(pay) IN
                         IF ~p.ok THEN [ok |-> FALSE, v |-> Unset]
                         ELSE LET j == LastOcc(p.fields, 1, NativeWt(f.vkind), Len(p.fields)) IN
                              IF j = 0 THEN [ok |-> TRUE, v |-> [k |-> "wrapv", v |-> ScalarDefault(f.vkind)]]
                              ELSE LET d == DecodeSingle(idx, f, f.vkind, p.fields[j], pay, depth) IN
                                   [ok |-> d.ok, v |-> [k |-> "wrapv", v |-> d.v]])

MapEntry(idx, f, pay) ==
  LET p == ParseFields(pay) IN
  IF ~p.ok THEN [ok |-> FALSE, key |-> Unset, val |-> Unset]
  ELSE LET jk == LastOcc(p.fields, 1, NativeWt(f.kkind), Len(p.fields))
           jv == LastOcc(p.fields, 2, NativeWt(f.vkind), Len(p.fields))
           key == IF jk = 0 THEN [ok |-> TRUE, v |-> ScalarDefault(f.kkind)] ELSE DecodeSingle(idx, f, f.kkind, p.fields[jk], pay, 0)
           val == IF jv = 0 THEN (IF f.vkind = "message" THEN [ok |-> TRUE, v |-> [k |-> "msg", m |-> idx[f.msg].fresh, unk |-> <<>>]]
                                  ELSE [ok |-> TRUE, v |-> IF f.vkind = "enum" THEN ZeroInt ELSE IF f.vkind = "timestamp" THEN ZeroTs
                                                             ELSE IF f.vkind = "duration" THEN ZeroDur ELSE ScalarDefault(f.vkind)])
                  ELSE DecodeSingle(idx, f, f.vkind, p.fields[jv], pay, 0)
       IN [ok |-> key.ok /\ val.ok, key |-> key.v, val |-> val.v]

MapPut(m, key, val) == [k |-> "map", f |-> [x \in (DOMAIN m.f) \cup {key} |-> IF x = key THEN val ELSE m.f[x]]]

SetField(idx, ty, st, f, v) ==
  LET sibs == idx[ty].sibs[f.name] IN
  IF sibs = {} THEN [st EXCEPT !.val[f.name] = v]
  ELSE [st EXCEPT !.val = [n \in DOMAIN st.val |-> IF n \in sibs THEN Unset ELSE IF n = f.name THEN v ELSE st.val[n]]]

\* st: [ok, err, val: [fname -> value], unk: bytes, merged: a singular sub-message occurred more than once (merge
\* semantics: outside the statements, such inputs are flagged and never generated)]
Apply(idx, ty, st, fs, b) ==
  IF fs = <<>> \/ ~st.ok THEN st
  ELSE LET e == Head(fs) IN
    IF e.num \notin DOMAIN idx[ty].bynum THEN Apply(idx, ty, [st EXCEPT !.unk = @ \o Slice(b, e.rs, e.re)], Tail(fs), b)
    ELSE LET f == idx[ty].bynum[e.num] IN
      IF f.card = "repeated" /\ Packable(f.kind) /\ e.wt = 2
      THEN LET u == Unpack(f.kind, Slice(b, e.ps, e.pe), 1, <<>>) IN
           IF ~u.ok THEN [st EXCEPT !.ok = FALSE, !.err = "bad_packed"]
           ELSE Apply(idx, ty, [st EXCEPT !.val[f.name] = [k |-> "list", xs |-> @.xs \o u.xs]], Tail(fs), b)
      ELSE IF f.card = "map"
      THEN IF e.wt # 2 THEN Apply(idx, ty, [st EXCEPT !.unk = @ \o Slice(b, e.rs, e.re)], Tail(fs), b)
           ELSE LET en == MapEntry(idx, f, Slice(b, e.ps, e.pe)) IN
                IF ~en.ok THEN [st EXCEPT !.ok = FALSE, !.err = "bad_map_entry"]
                ELSE Apply(idx, ty, [st EXCEPT !.val[f.name] = MapPut(@, en.key, en.val)], Tail(fs), b)
      ELSE IF e.wt # NativeWt(f.kind)
      THEN Apply(idx, ty, [st EXCEPT !.unk = @ \o Slice(b, e.rs, e.re)], Tail(fs), b)      \* wire-type mismatch: kept as unknown
      ELSE LET d == DecodeSingle(idx, f, f.kind, e, b, 0) IN
           IF ~d.ok THEN [st EXCEPT !.ok = FALSE, !.err = "nested"]
           ELSE IF f.card = "repeated"
                THEN Apply(idx, ty, [st EXCEPT !.val[f.name] = [k |-> "list", xs |-> Append(@.xs, d.v)]], Tail(fs), b)
                ELSE LET again == f.kind \in MsgKinds /\ st.val[f.name].k \notin {"unset"} /\ st.val[f.name] # DefaultOf(f)
                     IN Apply(idx, ty, [SetField(idx, ty, st, f, d.v) EXCEPT !.merged = (@ \/ again)], Tail(fs), b)
DecodeMsg(idx, ty, b) ==
  LET p == ParseFields(b) IN
  IF ~p.ok THEN [ok |-> FALSE, err |-> p.err, val |-> idx[ty].fresh, unk |-> <<>>, merged |-> FALSE]
  ELSE Apply(idx, ty, [ok |-> TRUE, err |-> "", val |-> idx[ty].fresh, unk |-> <<>>, merged |-> FALSE], p.fields, b)
SpecDecode(idx, ty, b) == DecodeMsg(idx, ty, b)


(* ------------------------------ encoding ------------------------------ *)
(* values here are abstract values as generated / observed (ints [k,neg,mag], text as code points, times in us) *)
IntOfV(v) == MkInt(v.neg, v.mag)
\* raw varint magnitude of a varint-kind scalar
RawOfScalar(kind, v) ==
  CASE kind = "bool" -> (IF v.v THEN <<1>> ELSE <<>>)
    [] kind \in {"int32", "int64", "enum"} -> TC(IntOfV(v), 64)
    [] kind \in {"uint32", "uint64"} -> v.mag
    [] kind \in {"sint32", "sint64"} -> ZigZag(IntOfV(v))
BytesOfScalar(kind, v) ==
  CASE kind \in {"float", "double"} -> v.b
    [] kind \in {"fixed32", "sfixed32"} -> ToBytes(TC(IntOfV(v), 32), 4)
    [] kind \in {"fixed64", "sfixed64"} -> ToBytes(TC(IntOfV(v), 64), 8)
    [] kind = "string" -> Utf8(v.cp)
    [] kind = "bytes" -> v.b
IsDefaultScalar(kind, v) ==
  CASE kind \in IntKinds -> v.mag = <<>>
    [] kind = "bool" -> ~v.v
    [] kind = "float" -> v.b = <<0, 0, 0, 0>>                 \* -0.0 is not the default bit pattern
    [] kind = "double" -> v.b = <<0, 0, 0, 0, 0, 0, 0, 0>>
    [] kind = "string" -> v.cp = <<>>
    [] kind = "bytes" -> v.b = <<>>
ScalarDefaultV(kind) ==
  CASE kind \in IntKinds -> [k |-> "int", neg |-> FALSE, mag |-> <<>>]
    [] kind = "bool" -> [k |-> "bool", v |-> FALSE]
    [] kind = "float" -> [k |-> "f32", b |-> <<0, 0, 0, 0>>]
    [] kind = "double" -> [k |-> "f64", b |-> <<0, 0, 0, 0, 0, 0, 0, 0>>]
    [] kind = "string" -> [k |-> "str", cp |-> <<>>]
    [] kind = "bytes" -> [k |-> "bytes", b |-> <<>>]
PadTag(num, wt, pad) == PadVarintCapped(TagMag(num, wt), IF pad > 2 THEN 2 ELSE pad)   \* a tag stays within 5 bytes
PadLen(pay, pad) == PadVarintCapped(FromNat(Len(pay)), pad) \o pay

RECURSIVE EncMsgV(_, _, _), PayloadV(_, _, _, _), EncFieldsV(_, _, _, _)
SecNanosEnc(t) == (IF IsZero(t.s) THEN <<>> ELSE Tag(1, 0) \o EncVarint(TC(t.s, 64)))
                  \o (IF IsZero(t.n) THEN <<>> ELSE Tag(2, 0) \o EncVarint(TC(t.n, 64)))
\* payload of a length-delimited kind
PayloadV(idx, f, kind, v) ==
  CASE kind = "message" -> EncMsgV(idx, f.msg, v.m)
    [] kind = "timestamp" -> SecNanosEnc(TsOfMicros(MkInt(v.us.neg, v.us.mag)))
    [] kind = "duration" -> SecNanosEnc(DurOfMicros(MkInt(v.us.neg, v.us.mag)))
    [] kind = "wrap" -> (IF IsDefaultScalar(f.vkind, v.v) THEN <<>>
                         ELSE IF NativeWt(f.vkind) = 0 THEN Tag(1, 0) \o EncVarint(RawOfScalar(f.vkind, v.v))
                         ELSE IF NativeWt(f.vkind) = 2 THEN Tag(1, 2) \o LenPrefix(BytesOfScalar(f.vkind, v.v))
                         ELSE Tag(1, NativeWt(f.vkind)) \o BytesOfScalar(f.vkind, v.v))
    [] OTHER -> BytesOfScalar(kind, v)
\* one occurrence of field number num holding v, every varint of the occurrence padded by pad
Occ(idx, f, num, kind, v, pad) ==
  LET wt == NativeWt(kind) IN
  IF wt = 0 THEN PadTag(num, 0, pad) \o PadVarintCapped(RawOfScalar(kind, v), pad)
  ELSE IF wt = 2 THEN PadTag(num, 2, pad) \o PadLen(PayloadV(idx, f, kind, v), pad)
  ELSE PadTag(num, wt, pad) \o BytesOfScalar(kind, v)
\* the elements of a packed payload
RECURSIVE PackedBody(_, _, _)
PackedBody(kind, xs, pad) ==
  IF xs = <<>> THEN <<>>
  ELSE (IF NativeWt(kind) = 0 THEN PadVarintCapped(RawOfScalar(kind, Head(xs)), pad) ELSE BytesOfScalar(kind, Head(xs)))
       \o PackedBody(kind, Tail(xs), pad)
PackedOcc(f, xs, pad) == PadTag(f.num, 2, pad) \o PadLen(PackedBody(f.kind, xs, pad), pad)
MapEntryOcc(idx, f, pair, pad) ==
  PadTag(f.num, 2, pad) \o PadLen(Occ(idx, f, 1, f.kkind, pair[1], 0) \o Occ(idx, f, 2, f.vkind, pair[2], 0), pad)
RECURSIVE OccAll(_, _, _, _)
OccAll(idx, f, xs, j) == IF j > Len(xs) THEN <<>> ELSE Occ(idx, f, f.num, f.kind, xs[j], 0) \o OccAll(idx, f, xs, j + 1)
RECURSIVE EntriesAll(_, _, _, _)
EntriesAll(idx, f, es, j) == IF j > Len(es) THEN <<>> ELSE MapEntryOcc(idx, f, es[j], 0) \o EntriesAll(idx, f, es, j + 1)
\* is the field emitted at all (presence discipline of proto3)
Emits(f, v) ==
  CASE v.k = "unset" -> FALSE
    [] f.card = "repeated" -> v.xs # <<>>
    [] f.card = "map" -> v.es # <<>>
    [] f.card \in {"optional", "oneof"} -> TRUE
    [] f.kind \in {"message", "wrap"} -> TRUE
    [] f.kind \in {"timestamp", "duration"} -> v.us.mag # <<>>
    [] OTHER -> ~IsDefaultScalar(f.kind, v)
\* the canonical encoder: declaration order, packed repeated scalars, minimal varints
EncFieldV(idx, f, v) ==
  IF ~Emits(f, v) THEN <<>>
  ELSE IF f.card = "repeated" THEN (IF Packable(f.kind) THEN PackedOcc(f, v.xs, 0) ELSE OccAll(idx, f, v.xs, 1))
  ELSE IF f.card = "map" THEN EntriesAll(idx, f, v.es, 1)
  ELSE Occ(idx, f, f.num, f.kind, v, 0)
EncFieldsV(idx, fs, val, j) == IF j > Len(fs) THEN <<>> ELSE EncFieldV(idx, fs[j], val[fs[j].name]) \o EncFieldsV(idx, fs, val, j + 1)
EncMsgV(idx, ty, val) == EncFieldsV(idx, idx[ty].fields, val, 1)
SpecEncode(idx, ty, val) == EncMsgV(idx, ty, val)


(* ------------------------------ encoded size (without building the bytes) ------------------------------ *)
Utf8LenOf(c) == IF c < 128 THEN 1 ELSE IF c < 2048 THEN 2 ELSE IF c < 65536 THEN 3 ELSE 4
RECURSIVE Utf8Len(_)
Utf8Len(cps) == IF cps = <<>> THEN 0 ELSE Utf8LenOf(Head(cps)) + Utf8Len(Tail(cps))
TagSize(num, wt) == SizeVarint(TagMag(num, wt))
LenPrefixed(n) == SizeVarint(FromNat(n)) + n
RECURSIVE SizeMsgV(_, _, _), PayloadSizeV(_, _, _, _), SizeFieldsV(_, _, _, _)
SecNanosSize(t) == (IF IsZero(t.s) THEN 0 ELSE 1 + SizeVarint(TC(t.s, 64))) + (IF IsZero(t.n) THEN 0 ELSE 1 + SizeVarint(TC(t.n, 64)))
ScalarSize(kind, v) ==
  CASE NativeWt(kind) = 0 -> SizeVarint(RawOfScalar(kind, v))
    [] NativeWt(kind) = 5 -> 4
    [] NativeWt(kind) = 1 -> 8
    [] kind = "string" -> Utf8Len(v.cp)
    [] kind = "bytes" -> Len(v.b)
PayloadSizeV(idx, f, kind, v) ==
  CASE kind = "message" -> SizeMsgV(idx, f.msg, v.m)
    [] kind = "timestamp" -> SecNanosSize(TsOfMicros(MkInt(v.us.neg, v.us.mag)))
    [] kind = "duration" -> SecNanosSize(DurOfMicros(MkInt(v.us.neg, v.us.mag)))
    [] kind = "wrap" -> (IF IsDefaultScalar(f.vkind, v.v) THEN 0
                         ELSE IF NativeWt(f.vkind) = 2 THEN 1 + LenPrefixed(ScalarSize(f.vkind, v.v))
                         ELSE 1 + ScalarSize(f.vkind, v.v))
    [] OTHER -> ScalarSize(kind, v)
OccSize(idx, f, num, kind, v) ==
  IF NativeWt(kind) = 2 THEN TagSize(num, 2) + LenPrefixed(PayloadSizeV(idx, f, kind, v))
  ELSE TagSize(num, NativeWt(kind)) + ScalarSize(kind, v)
RECURSIVE SumSizes(_, _, _, _, _)
SumSizes(idx, f, kind, xs, j) == IF j > Len(xs) THEN 0 ELSE ScalarSize(kind, xs[j]) + SumSizes(idx, f, kind, xs, j + 1)
RECURSIVE SumOcc(_, _, _, _), SumEntries(_, _, _, _)
SumOcc(idx, f, xs, j) == IF j > Len(xs) THEN 0 ELSE OccSize(idx, f, f.num, f.kind, xs[j]) + SumOcc(idx, f, xs, j + 1)
SumEntries(idx, f, es, j) ==
  IF j > Len(es) THEN 0
  ELSE TagSize(f.num, 2) + LenPrefixed(OccSize(idx, f, 1, f.kkind, es[j][1]) + OccSize(idx, f, 2, f.vkind, es[j][2]))
       + SumEntries(idx, f, es, j + 1)
SizeFieldV(idx, f, v) ==
  IF ~Emits(f, v) THEN 0
  ELSE IF f.card = "repeated" THEN (IF Packable(f.kind) THEN TagSize(f.num, 2) + LenPrefixed(SumSizes(idx, f, f.kind, v.xs, 1))
                                    ELSE SumOcc(idx, f, v.xs, 1))
  ELSE IF f.card = "map" THEN SumEntries(idx, f, v.es, 1)
  ELSE OccSize(idx, f, f.num, f.kind, v)
SizeFieldsV(idx, fs, val, j) == IF j > Len(fs) THEN 0 ELSE SizeFieldV(idx, fs[j], val[fs[j].name]) + SizeFieldsV(idx, fs, val, j + 1)
SizeMsgV(idx, ty, val) == SizeFieldsV(idx, idx[ty].fields, val, 1)
SpecSize(idx, ty, val) == SizeMsgV(idx, ty, val)

(* ------------------------------ value normal form ------------------------------ *)
IsNaN32(b) == (b[4] % 128 = 127) /\ b[3] >= 128 /\ (b[3] > 128 \/ b[2] # 0 \/ b[1] # 0)
IsNaN64(b) == (b[8] % 128 = 127) /\ b[7] >= 240 /\ (b[7] > 240 \/ (\E i \in 1..6 : b[i] # 0))
\* numeric equality of floats (Python ==, with NaN identified): every NaN -> one NaN, -0.0 -> +0.0
NormF32(b) == IF IsNaN32(b) THEN <<0, 0, 192, 127>> ELSE IF b = <<0, 0, 0, 128>> THEN <<0, 0, 0, 0>> ELSE b
NormF64(b) == IF IsNaN64(b) THEN <<0, 0, 0, 0, 0, 0, 248, 127>> ELSE IF b = <<0, 0, 0, 0, 0, 0, 0, 128>> THEN <<0, 0, 0, 0, 0, 0, 0, 0>> ELSE b

RECURSIVE Norm(_)
NormPairs(es) == [k |-> "map",
                  f |-> [x \in { Norm(es[j][1]) : j \in 1..Len(es) } |->
                           Norm(es[CHOOSE j \in 1..Len(es) : Norm(es[j][1]) = x /\ \A i \in (j + 1)..Len(es) : Norm(es[i][1]) # x][2])]]
Norm(v) ==
  CASE v.k = "int"   -> KInt(MkInt(v.neg, v.mag))
    [] v.k = "f32"   -> [k |-> "f32", b |-> NormF32(v.b)]
    [] v.k = "f64"   -> [k |-> "f64", b |-> NormF64(v.b)]
    [] v.k = "str"   -> [k |-> "str", u |-> IF "cp" \in DOMAIN v THEN Utf8(v.cp) ELSE v.u]
    [] v.k = "list"  -> [k |-> "list", xs |-> [i \in 1..Len(v.xs) |-> Norm(v.xs[i])]]
    [] v.k = "map"   -> IF "es" \in DOMAIN v THEN NormPairs(v.es)
                        ELSE [k |-> "map", f |-> [x \in DOMAIN v.f |-> Norm(v.f[x])]]
    [] v.k = "msg"   -> [k |-> "msg", m |-> [n \in DOMAIN v.m |-> Norm(v.m[n])]]
    [] v.k = "ts"    -> LET t == TsOfMicros(MkInt(v.us.neg, v.us.mag)) IN [k |-> "tsn", s |-> t.s, n |-> t.n]
    [] v.k = "dur"   -> LET t == DurOfMicros(MkInt(v.us.neg, v.us.mag)) IN [k |-> "durn", s |-> t.s, n |-> t.n]
    [] v.k = "tsn"   -> [k |-> "tsn", s |-> MkInt(v.s.neg, v.s.mag), n |-> MkInt(v.n.neg, v.n.mag)]
    [] v.k = "durn"  -> [k |-> "durn", s |-> MkInt(v.s.neg, v.s.mag), n |-> MkInt(v.n.neg, v.n.mag)]
    [] v.k = "wrapv" -> [k |-> "wrapv", v |-> Norm(v.v)]
    [] v.k = "bytes" -> [k |-> "bytes", b |-> v.b]           \* (drops transport annotations such as "handed in as a bytearray")
    [] v.k = "bool"  -> [k |-> "bool", v |-> v.v]
    [] OTHER -> v
NormMsg(m) == [n \in DOMAIN m |-> Norm(m[n])]

\* does a normalised value contain a NaN (whose payload bits no text form can carry)
RECURSIVE HasNaN(_)
HasNaN(v) ==
  CASE v.k = "f32" -> v.b = <<0, 0, 192, 127>>
    [] v.k = "f64" -> v.b = <<0, 0, 0, 0, 0, 0, 248, 127>>
    [] v.k = "list" -> \E j \in 1..Len(v.xs) : HasNaN(v.xs[j])
    [] v.k = "map" -> \E x \in DOMAIN v.f : HasNaN(v.f[x])
    [] v.k = "msg" -> \E n \in DOMAIN v.m : HasNaN(v.m[n])
    [] v.k = "wrapv" -> HasNaN(v.v)
    [] OTHER -> FALSE
MsgHasNaN(m) == \E n \in DOMAIN m : HasNaN(m[n])
\* the names of the fields on which two normalised messages differ (diagnostics)
DiffFields(a, b) == { n \in DOMAIN a : n \notin DOMAIN b \/ a[n] # b[n] }
=============================================================================
