----------------------------- MODULE AbsMessage -----------------------------
(***************************************************************************)
(* A message object as its users see it: the expected public observation   *)
(* (field values in the Codec value domain, oneof selection, None-ness,    *)
(* nested presence, unknown bytes) as a state, and the effect of every     *)
(* public operation on it.  Written from the proto3 semantics and the      *)
(* documented betterproto API, independent of Message's implementation.    *)
(* Step(idx, ty, st, e) consumes one logged call.                          *)
(***************************************************************************)
EXTENDS Codec

Any == [k |-> "any"]          \* a present sub-message whose content the statements leave open (merge of two occurrences)

InitAbs(idx, ty) == [val |-> idx[ty].fresh, unk |-> <<>>, bad |-> "", detail |-> ""]
Fail(st, c, d) == IF st.bad = "" THEN [st EXCEPT !.bad = c, !.detail = d] ELSE st

\* the value a field takes when v is assigned to it (v abstract, as logged)
\* a *fresh* message object assigned to a plain (implicit-presence) message field does not make it present
\* (a message type without fields is the exception: nothing could be assigned inside it, so giving one always means presence)
Assigned(idx, f, v) ==
  IF v.k = "unset" THEN (IF f.card = "implicit" /\ f.kind \notin {"message", "wrap"} THEN DefaultOf(f) ELSE Unset)
  ELSE IF v.k = "msg" /\ v.fresh /\ f.card = "implicit" /\ idx[f.msg].names # {} THEN Unset
  ELSE Norm(v)
SetVal(idx, ty, val, n, nv) ==
  LET sibs == idx[ty].sibs[n] IN
  [x \in DOMAIN val |-> IF x = n THEN nv ELSE IF x \in sibs THEN Unset ELSE val[x]]

\* construct with keyword arguments kw = sequence of <<name, value>> (declaration order)
RECURSIVE ApplyKw(_, _, _, _)
ApplyKw(idx, ty, val, kw) ==
  IF kw = <<>> THEN val
  ELSE LET n == kw[1][1]  f == idx[ty].byname[n] IN
       ApplyKw(idx, ty, SetVal(idx, ty, val, n, Assigned(idx, f, kw[1][2])), Tail(kw))

\* field names with an occurrence of fitting wire type in b
Touched(idx, ty, b) ==
  LET p == ParseFields(b) IN
  IF ~p.ok THEN {}
  ELSE { n \in idx[ty].names :
           LET f == idx[ty].byname[n] IN
           \E j \in 1..Len(p.fields) :
              /\ p.fields[j].num = f.num
              /\ \/ p.fields[j].wt = NativeWt(f.kind)
                 \/ (p.fields[j].wt = 2 /\ f.card = "repeated" /\ Packable(f.kind)) }
\* m.parse(b) on an existing object
MergeParse(idx, ty, st, b) ==
  LET d == SpecDecode(idx, ty, b)  t == Touched(idx, ty, b) IN
  IF ~d.ok THEN st        \* (malformed input is C17's subject; histories only use well-formed input)
  ELSE LET nd == NormMsg(d.val)
           groupTouched(n) == \E x \in idx[ty].sibs[n] \cup {n} : x \in t
           newval == [n \in DOMAIN st.val |->
              LET f == idx[ty].byname[n] IN
              IF f.card = "oneof" THEN (IF groupTouched(n) THEN
                                           (IF nd[n].k = "msg" /\ st.val[n].k \in {"msg", "any"} THEN Any ELSE nd[n])
                                        ELSE st.val[n])
              ELSE IF n \notin t THEN st.val[n]
              ELSE IF f.card = "repeated" THEN [k |-> "list", xs |-> st.val[n].xs \o nd[n].xs]
              ELSE IF f.card = "map" THEN [k |-> "map", f |-> [x \in (DOMAIN st.val[n].f) \cup (DOMAIN nd[n].f) |->
                                                                 IF x \in DOMAIN nd[n].f THEN nd[n].f[x] ELSE st.val[n].f[x]]]
              ELSE IF nd[n].k = "msg" /\ st.val[n].k \in {"msg", "any"} THEN Any
              ELSE nd[n]]
       IN [st EXCEPT !.val = newval, !.unk = @ \o d.unk]

\* assignment inside a sub-message field n:  m.<n>.<x> = v
SetIn(idx, ty, st, n, x, v) ==
  LET f == idx[ty].byname[n]
      cur == st.val[n]
      inner == IF cur.k = "msg" THEN cur.m ELSE NormMsg(idx[f.msg].fresh)
      g == idx[f.msg].byname[x]
      nm == SetVal(idx, f.msg, inner, x, Assigned(idx, g, v))
  IN IF cur.k = "any" THEN st
     ELSE [st EXCEPT !.val = SetVal(idx, ty, st.val, n, [k |-> "msg", m |-> nm])]

FillIn(idx, ty, st, e) ==
  LET f == idx[ty].byname[e.f]
      cur == st.val[e.f]
      inner == IF cur.k = "msg" THEN cur.m ELSE NormMsg(idx[f.msg].fresh)
      old == inner[e.x]
      nv == IF e.op = "appendin" THEN [k |-> "list", xs |-> Append(old.xs, Norm(e.v))]
            ELSE LET nk == Norm(e.key) IN [k |-> "map", f |-> [y \in (DOMAIN old.f) \cup {nk} |-> IF y = nk THEN Norm(e.v) ELSE old.f[y]]]
  IN IF cur.k = "any" THEN st
     ELSE [st EXCEPT !.val = SetVal(idx, ty, st.val, e.f, [k |-> "msg", m |-> [inner EXCEPT ![e.x] = nv]])]

\* the same two levels down:  m.<f>.<g>.<x>.append(v)
FillPath(idx, ty, st, e) ==
  LET f == idx[ty].byname[e.f]
      cur == st.val[e.f]
      inner == IF cur.k = "msg" THEN cur.m ELSE NormMsg(idx[f.msg].fresh)
      g == idx[f.msg].byname[e.g]
      cur2 == inner[e.g]
      inner2 == IF cur2.k = "msg" THEN cur2.m ELSE NormMsg(idx[g.msg].fresh)
      nv == [k |-> "list", xs |-> Append(inner2[e.x].xs, Norm(e.v))]
      mid == SetVal(idx, f.msg, inner, e.g, [k |-> "msg", m |-> [inner2 EXCEPT ![e.x] = nv]])
  IN IF cur.k = "any" \/ cur2.k = "any" THEN st
     ELSE [st EXCEPT !.val = SetVal(idx, ty, st.val, e.f, [k |-> "msg", m |-> mid])]

\* whether these conversions succeed on every value is the subject of C04/C05/C09 (JSON) -- here only their purity is judged
Tolerated == {"todict", "tojson", "topydict", "repr"}
Rejected == {"parse_bad", "fromdict_bad", "frompydict_bad"}
IsPrefixSeq(a, b) == Len(a) <= Len(b) /\ SubSeq(b, 1, Len(a)) = a
Observers == {"eqother", "eqwith", "get", "getin", "bytes", "len", "bool", "repr", "todict", "tojson", "topydict", "eqself", "observe", "mutcopy"}
Copiers == {"copy", "deepcopy", "pickle"}

\* expected effect of one logged operation on the abstract state
Effect(idx, ty, st, e) ==
  CASE e.op = "new" -> [InitAbs(idx, ty) EXCEPT !.val = ApplyKw(idx, ty, NormMsg(idx[ty].fresh), e.kw)]
    [] e.op = "set" -> [st EXCEPT !.val = SetVal(idx, ty, st.val, e.f, Assigned(idx, idx[ty].byname[e.f], e.v))]
    [] e.op = "setin" -> SetIn(idx, ty, st, e.f, e.x, e.v)
    \* m.<f>.<x> = m.<f>.<x>: an assignment like any other (the sub-message becomes present), whatever object is assigned
    [] e.op = "selfin" -> LET cur == st.val[e.f]
                              inner == IF cur.k = "msg" THEN cur.m ELSE NormMsg(idx[idx[ty].byname[e.f].msg].fresh) IN
                          IF cur.k = "any" THEN st ELSE SetIn(idx, ty, st, e.f, e.x, inner[e.x])
    [] e.op = "parse" -> MergeParse(idx, ty, st, e.b)
    [] e.op = "fromdict_cls" -> [InitAbs(idx, ty) EXCEPT !.val = ApplyKw(idx, ty, NormMsg(idx[ty].fresh), e.kw)]
    [] e.op = "fromdict_inst" -> [st EXCEPT !.val = ApplyKw(idx, ty, st.val, e.kw)]
    \* in-place mutation of the container the attribute read returns:  m.<f>.append(v)  /  m.<f>[key] = v
    [] e.op = "append" -> [st EXCEPT !.val[e.f] = [k |-> "list", xs |-> Append(@.xs, Norm(e.v))]]
    \* ... and of a container inside a sub-message:  m.<f>.<x>.append(v)  /  m.<f>.<x>[key] = v   (nothing passes through a
    \* __setattr__; the sub-message now has content, so it is part of the value like one that was assigned to)
    [] e.op \in {"appendin", "mapsetin"} -> FillIn(idx, ty, st, e)
    [] e.op = "fillpath" -> FillPath(idx, ty, st, e)
    [] e.op = "mapset" -> LET nk == Norm(e.key)  nv == Norm(e.v)  old == st.val[e.f].f IN
                          [st EXCEPT !.val[e.f] = [k |-> "map", f |-> [x \in (DOMAIN old) \cup {nk} |-> IF x = nk THEN nv ELSE old[x]]]]
    \* an operation that was *rejected* (malformed bytes / an invalid document given to a live object; the caller caught the
    \* exception and goes on using the object).  How much of the input took effect before the rejection is not the properties'
    \* business: the state is taken from what the object now shows - and everything Judge demands of a message (its encoding
    \* denotes that value, oneof members readable exactly when selected, is_set, JSON keys, framing, dict round trip ...) is
    \* demanded of it, now and after every later call.
    [] e.op \in Rejected -> IF e.obs.err # "" THEN st
                            ELSE LET d == SpecDecode(idx, ty, e.obs.wire) IN
                                 [st EXCEPT !.val = NormMsg(e.obs.val), !.unk = IF d.ok THEN d.unk ELSE st.unk]
    [] OTHER -> st                                   \* observers and copies do not change what is observed

IsMember(idx, ty, n) == idx[ty].byname[n].card = "oneof"
Readable(st, n) == st.val[n] # Unset
\* expected vs observed values: Any matches any present sub-message
SameVal(obs, exp) == \A n \in DOMAIN exp : IF exp[n] = Any THEN obs[n].k = "msg" ELSE obs[n] = exp[n]
DiffVal(obs, exp) == { n \in DOMAIN exp : ~(IF exp[n] = Any THEN obs[n].k = "msg" ELSE obs[n] = exp[n]) }

\* reading an unselected oneof member raises AttributeError; so does reaching into an optional sub-message that is None
ExpectedRes(idx, ty, st, e) ==
  IF e.op = "get" /\ IsMember(idx, ty, e.f) /\ ~Readable(st, e.f) THEN "AttributeError"
  ELSE IF e.op \in {"getin", "setin", "selfin", "appendin", "mapsetin"} /\ idx[ty].byname[e.f].card \in {"oneof", "optional"} /\ ~Readable(st, e.f) THEN "AttributeError"
  ELSE "ok"

\* the observation vector e.obs = [val, wire, raises, dictkeys] judged against the state after the operation
\* C09 along a history (only where the driver asks for it): len() - read before bytes(), so that a size computed or cached
\* earlier in the history must still be right -, dump() and the size-delimited dump agree with bytes() after every call
LenJudged(o, op) ==
  IF o.len # Len(o.wire) THEN <<"len_differs_after_" \o op, <<o.len, Len(o.wire)>> >>
  ELSE IF o.dump # o.wire THEN <<"dump_differs_after_" \o op, "">>
  ELSE IF o.delim # EncVarint(FromNat(Len(o.wire))) \o o.wire THEN <<"delimited_framing_after_" \o op, <<Len(o.wire)>> >>
  ELSE <<"", "">>
\* C10 along a history: the frame written after this call, put on a stream twice, is read back by two loads as this value, twice
RereadJudged(o, op, val) ==
  IF o.reread_res = "skipped" THEN <<"", "">>
  ELSE IF o.reread_res # "ok" THEN <<"delimited_frame_not_read_back_after_" \o op, o.reread_res>>
  ELSE IF \E j \in 1..Len(o.reread) : ~SameVal(NormMsg(o.reread[j]), val) THEN <<"delimited_frame_reads_back_other_value_after_" \o op, "">>
  ELSE <<"", "">>

\* C04 along a history: the dict (both casings) and the JSON text written after this call are read back as the current value
DictJudged(o, op, val) ==
  IF o.dictback_res = "skipped" THEN <<"", "">>
  ELSE IF o.dictback_res # "ok" THEN <<"dict_round_trip_" \o o.dictback_res \o "_after_" \o op, "">>
  ELSE IF \E j \in 1..Len(o.dictback) : ~SameVal(NormMsg(o.dictback[j]), val)
       THEN <<"dict_round_trip_gives_other_value_after_" \o op, { j \in 1..Len(o.dictback) : ~SameVal(NormMsg(o.dictback[j]), val) }>>
  ELSE <<"", "">>

\* a step of a *blind* history: nothing is read from the object after the call (an observation reads every field, and reading
\* materialises defaults - some behaviour only shows on objects nobody has looked at); only the result is judged, the expected
\* effect accumulates, and the observation after the last call is judged against all of it
Blind(e) == "blind" \in DOMAIN e.obs
Judge(idx, ty, st, e, want, judgeLen) ==
  LET o == e.obs  ov == NormMsg(o.val) IN
  IF Blind(e) THEN (IF e.res # want /\ e.op \notin Tolerated THEN Fail(st, "op_" \o e.op \o "_result_" \o e.res, want) ELSE st)
  ELSE IF e.res # want /\ e.op \notin Tolerated \cup Rejected
  THEN Fail(st, "op_" \o e.op \o "_result_" \o e.res, want)
  ELSE IF o.err # "" THEN Fail(st, "observation_raises_" \o o.err, "")
  ELSE IF ~SameVal(ov, st.val) THEN Fail(st, "observed_value_after_" \o e.op, DiffVal(ov, st.val))
  ELSE LET d == SpecDecode(idx, ty, o.wire) IN
    IF ~d.ok THEN Fail(st, "encoding_malformed_after_" \o e.op, d.err)
    ELSE IF ~SameVal(NormMsg(d.val), st.val) THEN Fail(st, "encoding_after_" \o e.op, DiffVal(NormMsg(d.val), st.val))
    ELSE IF d.unk # st.unk THEN Fail(st, "unknown_fields_after_" \o e.op, <<d.unk, st.unk>>)
    ELSE IF \E n \in Touched(idx, ty, o.wire) : st.val[n] = idx[ty].fresh[n] /\ idx[ty].byname[n].kind \notin {"float", "double"}
         THEN Fail(st, "default_valued_or_absent_field_emitted_after_" \o e.op,
                   { n \in Touched(idx, ty, o.wire) : st.val[n] = idx[ty].fresh[n] })
    ELSE IF ~SameVal(NormMsg(o.refval), st.val) THEN Fail(st, "ref_presence_differs_after_" \o e.op, DiffVal(NormMsg(o.refval), st.val))
    ELSE IF \E n \in DOMAIN st.val : IsMember(idx, ty, n) /\ o.raises[n] # ~Readable(st, n)
         THEN Fail(st, "oneof_member_readability_after_" \o e.op,
                   { n \in DOMAIN st.val : IsMember(idx, ty, n) /\ o.raises[n] # ~Readable(st, n) })
    ELSE IF \E n \in DOMAIN st.val : IsMember(idx, ty, n) /\ ((n \in { o.dictkeys[j] : j \in 1..Len(o.dictkeys) }) # Readable(st, n))
         THEN Fail(st, "json_oneof_members_after_" \o e.op, "")
    ELSE IF "isset" \in DOMAIN o /\ \E n \in DOMAIN st.val : idx[ty].byname[n].card = "optional" /\ n \in DOMAIN o.isset /\ o.isset[n] # Readable(st, n)
         THEN Fail(st, "is_set_of_optional_field_after_" \o e.op,
                   { n \in DOMAIN st.val : idx[ty].byname[n].card = "optional" /\ n \in DOMAIN o.isset /\ o.isset[n] # Readable(st, n) })
    ELSE IF "rteq" \in DOMAIN o /\ ~o.rteq /\ ~MsgHasNaN(ov) THEN Fail(st, "not_equal_to_its_own_reparsed_encoding_after_" \o e.op, "")
    ELSE IF e.op \in {"eqother", "eqwith"} /\ ~e.samebytes THEN Fail(st, "comparison_changed_the_other_operand", "")
    ELSE IF e.op = "eqother" /\ ~e.eq /\ ~MsgHasNaN(ov) THEN Fail(st, "comparison_with_a_message_differing_in_one_map_key", "")
    ELSE IF e.op \in Copiers /\ ~e.eq THEN Fail(st, e.op \o "_not_equal_to_original", "")
    ELSE IF e.op \in Copiers /\ ~e.samebytes THEN Fail(st, e.op \o "_bytes_differ_from_original", "")
    ELSE IF judgeLen /\ LenJudged(o, e.op)[1] # "" THEN Fail(st, LenJudged(o, e.op)[1], LenJudged(o, e.op)[2])
    ELSE IF judgeLen /\ RereadJudged(o, e.op, st.val)[1] # "" THEN Fail(st, RereadJudged(o, e.op, st.val)[1], RereadJudged(o, e.op, st.val)[2])
    ELSE IF "dictback_res" \in DOMAIN o /\ DictJudged(o, e.op, st.val)[1] # "" THEN Fail(st, DictJudged(o, e.op, st.val)[1], DictJudged(o, e.op, st.val)[2])
    ELSE st

\* whatever a rejected parse did or did not take over: what the object had kept of fields it does not know stays (C08)
LostUnknown(idx, ty, st, e) ==
  /\ e.op = "parse_bad" /\ ~Blind(e) /\ e.obs.err = ""
  /\ LET d == SpecDecode(idx, ty, e.obs.wire) IN d.ok /\ ~IsPrefixSeq(st.unk, d.unk)
Step(idx, ty, st, e, judgeLen) ==
  LET want == ExpectedRes(idx, ty, st, e) IN
  IF LostUnknown(idx, ty, st, e) THEN Fail(st, "unknown_fields_kept_earlier_are_gone_after_a_rejected_parse", st.unk) ELSE
  Judge(idx, ty, IF want = "ok" THEN Effect(idx, ty, st, e) ELSE st, e, want, judgeLen)
=============================================================================
