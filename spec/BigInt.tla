------------------------------- MODULE BigInt -------------------------------
(***************************************************************************)
(* Integers beyond TLC's 32-bit range.  A magnitude is a little-endian     *)
(* sequence of base-128 digits without trailing zeros; an integer is       *)
(* [neg, mag].  Base 128 is the varint digit size, so the varint codec is  *)
(* a re-tagging of digits; fixed-width encodings regroup digits to bytes.  *)
(* Every intermediate stays below 2^31.                                    *)
(***************************************************************************)
EXTENDS Integers, Sequences

RECURSIVE StripZ(_)
StripZ(s) == IF s # <<>> /\ s[Len(s)] = 0 THEN StripZ(SubSeq(s, 1, Len(s) - 1)) ELSE s

MkInt(neg, mag) == LET m == StripZ(mag) IN [neg |-> (neg /\ m # <<>>), mag |-> m]
Zero == [neg |-> FALSE, mag |-> <<>>]
One  == [neg |-> FALSE, mag |-> <<1>>]
IsZero(n) == n.mag = <<>>
DigitAt(m, i) == IF i >= 1 /\ i <= Len(m) THEN m[i] ELSE 0
IsMag(m) == /\ \A i \in 1..Len(m) : m[i] \in 0..127
            /\ (m # <<>> => m[Len(m)] # 0)
IsInt(n) == IsMag(n.mag) /\ (n.neg => n.mag # <<>>)

(* ------------------------- small naturals <-> magnitudes ------------------------- *)
RECURSIVE FromNat(_)
FromNat(n) == IF n = 0 THEN <<>> ELSE <<n % 128>> \o FromNat(n \div 128)
RECURSIVE ToNatFrom(_, _)
ToNatFrom(m, i) == IF i > Len(m) THEN 0 ELSE m[i] + (128 * ToNatFrom(m, i + 1))
FitsNat(m) == Len(m) <= 4                       \* < 2^28
ToNat(m) == ToNatFrom(m, 1)                     \* caller guarantees FitsNat(m)
IntOfNat(n) == [neg |-> FALSE, mag |-> FromNat(n)]
IntOfSmall(z) == IF z < 0 THEN [neg |-> TRUE, mag |-> FromNat(-z)] ELSE IntOfNat(z)
ToSmall(n) == IF n.neg THEN -ToNat(n.mag) ELSE ToNat(n.mag)

(* ------------------------- magnitude arithmetic ------------------------- *)
RECURSIVE CmpFrom(_, _, _)
CmpFrom(a, b, i) == IF i = 0 THEN 0
                    ELSE IF a[i] < b[i] THEN -1 ELSE IF a[i] > b[i] THEN 1 ELSE CmpFrom(a, b, i - 1)
CmpMag(a, b) == IF Len(a) < Len(b) THEN -1 ELSE IF Len(a) > Len(b) THEN 1 ELSE CmpFrom(a, b, Len(a))

RECURSIVE AddC(_, _, _, _)
AddC(a, b, i, c) == IF i > Len(a) /\ i > Len(b) THEN (IF c = 0 THEN <<>> ELSE <<c>>)
                    ELSE LET s == DigitAt(a, i) + DigitAt(b, i) + c IN <<s % 128>> \o AddC(a, b, i + 1, s \div 128)
AddMag(a, b) == AddC(a, b, 1, 0)

RECURSIVE SubB(_, _, _, _)
\* a >= b required
SubB(a, b, i, br) == IF i > Len(a) THEN <<>>
                     ELSE LET d == (a[i] - DigitAt(b, i)) - br IN
                          IF d < 0 THEN <<d + 128>> \o SubB(a, b, i + 1, 1) ELSE <<d>> \o SubB(a, b, i + 1, 0)
SubMag(a, b) == StripZ(SubB(a, b, 1, 0))

RECURSIVE MulC(_, _, _, _)
\* k < 2^23
MulC(a, k, i, c) == IF i > Len(a) THEN FromNat(c)
                    ELSE LET s == (a[i] * k) + c IN <<s % 128>> \o MulC(a, k, i + 1, s \div 128)
MulSmall(a, k) == StripZ(MulC(a, k, 1, 0))

RECURSIVE DivR(_, _, _, _)
\* long division by a small k (k < 2^23), most significant digit first; returns <<quotient digits (LE), remainder>>
DivR(a, k, i, r) == IF i = 0 THEN <<<<>>, r>>
                    ELSE LET cur == (r * 128) + a[i]
                             rest == DivR(a, k, i - 1, cur % k)
                         IN <<Append(rest[1], cur \div k), rest[2]>>
DivModSmall(a, k) == LET q == DivR(a, k, Len(a), 0) IN [q |-> StripZ(q[1]), r |-> q[2]]

Pow2Mag(w) == [i \in 1..((w \div 7) + 1) |-> IF i = (w \div 7) + 1 THEN 2 ^ (w % 7) ELSE 0]
TestBit(m, j) == (DigitAt(m, (j \div 7) + 1) \div (2 ^ (j % 7))) % 2 = 1          \* bit j, 0-based
\* low w bits
TruncBits(m, w) == LET nd == (w + 6) \div 7  top == w - (7 * (nd - 1)) IN
                   StripZ([i \in 1..(IF Len(m) < nd THEN Len(m) ELSE nd) |->
                              IF i = nd THEN m[i] % (2 ^ top) ELSE m[i]])
Half(m) == StripZ([i \in 1..Len(m) |-> (m[i] \div 2) + ((DigitAt(m, i + 1) % 2) * 64)])
IsOdd(m) == m # <<>> /\ m[1] % 2 = 1
BitLen(m) == IF m = <<>> THEN 0
             ELSE LET t == m[Len(m)] IN
                  (7 * (Len(m) - 1)) + (IF t >= 64 THEN 7 ELSE IF t >= 32 THEN 6 ELSE IF t >= 16 THEN 5
                                        ELSE IF t >= 8 THEN 4 ELSE IF t >= 4 THEN 3 ELSE IF t >= 2 THEN 2 ELSE 1)

(* ------------------------- signed integers ------------------------- *)
Neg(n) == MkInt(~n.neg, n.mag)
Cmp(a, b) == IF a.neg /\ ~b.neg THEN -1 ELSE IF ~a.neg /\ b.neg THEN 1
             ELSE IF a.neg THEN CmpMag(b.mag, a.mag) ELSE CmpMag(a.mag, b.mag)
Add(a, b) == IF a.neg = b.neg THEN MkInt(a.neg, AddMag(a.mag, b.mag))
             ELSE IF CmpMag(a.mag, b.mag) >= 0 THEN MkInt(a.neg, SubMag(a.mag, b.mag))
             ELSE MkInt(b.neg, SubMag(b.mag, a.mag))
Sub(a, b) == Add(a, Neg(b))
MulK(a, k) == MkInt(a.neg, MulSmall(a.mag, k))              \* k >= 0 small
\* floor division and modulo by a small positive k (Python's divmod)
FloorDivMod(a, k) == LET dm == DivModSmall(a.mag, k) IN
                     IF ~a.neg THEN [q |-> MkInt(FALSE, dm.q), r |-> dm.r]
                     ELSE IF dm.r = 0 THEN [q |-> MkInt(TRUE, dm.q), r |-> 0]
                     ELSE [q |-> MkInt(TRUE, AddMag(dm.q, <<1>>)), r |-> k - dm.r]
\* truncating division (toward zero), remainder carries the sign of a
TruncDivMod(a, k) == LET dm == DivModSmall(a.mag, k) IN
                     [q |-> MkInt(a.neg, dm.q), r |-> IF a.neg THEN -dm.r ELSE dm.r]

FitsUnsigned(n, w) == ~n.neg /\ BitLen(n.mag) <= w
FitsSigned(n, w) == IF n.neg THEN CmpMag(n.mag, Pow2Mag(w - 1)) <= 0 ELSE BitLen(n.mag) <= w - 1
\* two's complement at width w: the unsigned magnitude representing n (n must fit)
TC(n, w) == IF ~n.neg THEN n.mag ELSE SubMag(Pow2Mag(w), n.mag)
FromTC(u, w) == IF TestBit(u, w - 1) THEN MkInt(TRUE, SubMag(Pow2Mag(w), u)) ELSE MkInt(FALSE, u)
\* zig-zag: n >= 0 -> 2n ; n < 0 -> 2|n| - 1
ZigZag(n) == IF ~n.neg THEN AddMag(n.mag, n.mag) ELSE SubMag(AddMag(n.mag, n.mag), <<1>>)
UnZigZag(u) == IF IsOdd(u) THEN MkInt(TRUE, Half(AddMag(u, <<1>>))) ELSE MkInt(FALSE, Half(u))

(* ------------------------- base-256 regrouping ------------------------- *)
\* n little-endian bytes of the magnitude u (u < 2^(8n))
ToBytes(u, n) == [j \in 1..n |->
                    LET bit == 8 * (j - 1)  q == bit \div 7  r == bit % 7 IN
                    (DigitAt(u, q + 1) \div (2 ^ r)) + ((DigitAt(u, q + 2) % (2 ^ (r + 1))) * (2 ^ (7 - r)))]
ByteAt(bs, i) == IF i >= 1 /\ i <= Len(bs) THEN bs[i] ELSE 0
FromBytes(bs) == StripZ([k \in 1..(((8 * Len(bs)) + 6) \div 7) |->
                    LET bit == 7 * (k - 1)  q == bit \div 8  r == bit % 8 IN
                    IF r <= 1 THEN (ByteAt(bs, q + 1) \div (2 ^ r)) % 128
                    ELSE (ByteAt(bs, q + 1) \div (2 ^ r)) + ((ByteAt(bs, q + 2) % (2 ^ (r - 1))) * (2 ^ (8 - r)))])
=============================================================================
