------------------------------ MODULE MC_Wire ------------------------------
(* C17 / C10 on the specification itself: the ideal field reader (Wire!ParseFields) is explored on *every* byte     *)
(* string up to MaxLen over an alphabet of tag, length, continuation and payload bytes (the byte string grows one   *)
(* byte per step).  Theorems (state invariants):                                                                    *)
(*   Total            the reader classifies every input: ok, or one of the named error classes                      *)
(*   Lossless         when ok, the raw spans of the fields tile the input (nothing skipped, nothing read twice)      *)
(*   CutIsRejected    when ok, every proper prefix that ends inside a field is rejected with a truncation class,    *)
(*                    and every prefix that ends on a field boundary is accepted with exactly the fields before it  *)
(*   RejectedStays    (action property) an input rejected for field number 0 / a bad wire type / an unmatched end   *)
(*                    marker cannot be repaired by appending bytes                                                  *)
EXTENDS Wire, TLC
CONSTANTS Alpha, MaxLen
VARIABLE b

Init == b = <<>>
Grow == Len(b) < MaxLen /\ \E c \in Alpha : b' = Append(b, c)
Spec == Init /\ [][Grow]_b

P == ParseFields(b)
ErrClasses == {"truncated_tag", "truncated_varint", "truncated_fixed64", "truncated_fixed32", "truncated_length", "truncated_payload",
               "bad_wiretype", "field_zero", "field_number_range", "bad_group", "unmatched_end_group"}
Truncations == {"truncated_tag", "truncated_varint", "truncated_fixed64", "truncated_fixed32", "truncated_length", "truncated_payload", "bad_group"}
Total == P.ok \/ P.err \in ErrClasses

RECURSIVE Tiles(_, _, _)
Tiles(fs, k, pos) == IF k > Len(fs) THEN pos ELSE IF fs[k].rs # pos \/ fs[k].re < fs[k].rs THEN 0 ELSE Tiles(fs, k + 1, fs[k].re + 1)
Lossless == P.ok => Tiles(P.fields, 1, 1) = Len(b) + 1

Boundaries == {0} \cup {P.fields[k].re : k \in 1..Len(P.fields)}
FieldsBefore(n) == SelectSeq(P.fields, LAMBDA f : f.re <= n)
CutIsRejected ==
  P.ok => \A n \in 0..(Len(b) - 1) :
            LET q == ParseFields(SubSeq(b, 1, n)) IN
            IF n \in Boundaries THEN q.ok /\ q.fields = FieldsBefore(n)
            ELSE ~q.ok /\ q.err \in Truncations

Permanent == {"bad_wiretype", "field_zero", "field_number_range", "unmatched_end_group"}
RejectedStays == [][(~P.ok /\ P.err \in Permanent) => (~ParseFields(b').ok /\ ParseFields(b').err = P.err)]_b
\* an accepted input stays accepted up to its fields: appending bytes never changes the fields already read
AcceptedPrefixStable == [][P.ok => (LET q == ParseFields(b') IN Len(q.fields) >= Len(P.fields) /\ SubSeq(q.fields, 1, Len(P.fields)) = P.fields)]_b
\* vacuity control (must be violated): the explored inputs include accepted ones with several fields and a length-delimited payload
NoRichInput == ~(P.ok /\ Len(P.fields) >= 2 /\ \E k \in 1..Len(P.fields) : P.fields[k].wt = 2 /\ P.fields[k].pe >= P.fields[k].ps)
=============================================================================
