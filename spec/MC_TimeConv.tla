---------------------------- MODULE MC_TimeConv ----------------------------
(* Theorems of the Timestamp / Duration normal forms and text forms, checked by     *)
(* TLC over seconds from a boundary family x a fractional-microsecond family.       *)
EXTENDS TimeConv, TLC, FiniteSets

CONSTANTS Thorough
SmallSecs == IF Thorough THEN (-70..70) \cup {3599, 3600, 3601, -3600, 86399} ELSE {-3, -2, -1, 0, 1, 2, 3, 59, 60, 3599, 3600}
Fracs == IF Thorough THEN {0, 1, 2, 9, 10, 999, 1000, 1001, 10000, 100000, 499999, 500000, 500001, 999000, 999001, 999998, 999999}
         ELSE {0, 1, 999, 1000, 500000, 999000, 999999}

\* seconds of interest as integers beyond 32 bits: small ones, day and era boundaries, 2^53 us, the range ends
Two53us == [q |-> DivModSmall(Pow2Mag(53), Million).q]
BigSecs == { TsSecMin, TsSecMax, DurSecMax, Neg(DurSecMax), MkInt(FALSE, Two53us.q), MkInt(TRUE, Two53us.q),
             MkInt(FALSE, AddMag(Two53us.q, <<1>>)), IntOfNat(86399), IntOfNat(86400), IntOfSmall(-86400), IntOfSmall(-86401),
             IntOfNat(951782400), IntOfNat(951868800), IntOfNat(1709251199), IntOfNat(1709251200),
             MkInt(TRUE, MulSmall(FromNat(11644473), 1000)), MkInt(FALSE, MulSmall(FromNat(4102444), 1000)),
             MkInt(TRUE, MulSmall(FromNat(2208988), 1000)), Sub(TsSecMin, IntOfSmall(-1)), Sub(TsSecMax, One) }
Secs == { IntOfSmall(z) : z \in SmallSecs } \cup BigSecs

VARIABLES sec, frac, phase
vars == <<sec, frac, phase>>
Init == sec = Zero /\ frac = 0 /\ phase = "pick"
PickSec(s) == phase = "pick" /\ sec' = s /\ phase' = "frac" /\ UNCHANGED frac
PickFrac(f) == phase = "frac" /\ frac' = f /\ phase' = "done" /\ UNCHANGED sec
Next == (\E s \in Secs : PickSec(s)) \/ (\E f \in Fracs : PickFrac(f))
Spec == Init /\ [][Next]_vars

\* the microsecond count under test, both signs of the fraction
Us == Add(MulK(sec, Million), IntOfNat(frac))
UsNeg == Sub(MulK(sec, Million), IntOfNat(frac))

TsOK(us) ==
  LET t == TsOfMicros(us) IN
  /\ TsNormal(t)
  /\ MicrosOfTs(t) = us
  /\ (TsInRange(t) => LET txt == Rfc3339(t)  p == ParseRfc3339(txt) IN
                        /\ p.ok /\ p.v = t
                        /\ txt[Len(txt)] = 90
                        /\ Len(txt) \in {20, 24, 27, 30})
DurOK(us) ==
  LET d == DurOfMicros(us) IN
  /\ DurNormal(d)
  /\ MicrosOfDur(d) = us
  /\ (d.s.neg => ToSmall(d.n) <= 0) /\ (us.neg = (d.s.neg \/ ToSmall(d.n) < 0))
  /\ (DurInRange(d) => LET txt == DurText(d)  p == ParseDurText(txt) IN p.ok /\ p.v = d /\ txt[Len(txt)] = 115)
T_Timestamp == phase = "done" => TsOK(Us) /\ TsOK(UsNeg)
T_Duration == phase = "done" => DurOK(Us) /\ DurOK(UsNeg)
\* the civil calendar: inverse functions and day-of-epoch anchors
T_Civil == phase = "done" /\ Cmp(sec, TsSecMin) >= 0 /\ Cmp(sec, TsSecMax) <= 0 =>
             LET days == ToSmall(FloorDivMod(sec, 86400).q)  c == CivilFromDays(days) IN
             /\ DaysFromCivil(c.y, c.m, c.d) = days
             /\ c.m \in 1..12 /\ c.d \in 1..31 /\ c.y \in 1..9999
T_Anchors == /\ CivilFromDays(0) = [y |-> 1970, m |-> 1, d |-> 1]
             /\ CivilFromDays(11016) = [y |-> 2000, m |-> 2, d |-> 29]
             /\ CivilFromDays(-719162) = [y |-> 1, m |-> 1, d |-> 1]
             /\ CivilFromDays(2932896) = [y |-> 9999, m |-> 12, d |-> 31]
             /\ Rfc3339([s |-> Zero, n |-> Zero]) = <<49, 57, 55, 48, 45, 48, 49, 45, 48, 49, 84, 48, 48, 58, 48, 48, 58, 48, 48, 90>>
=============================================================================
