----------------------------- MODULE Importing -----------------------------
(* The import construction of compile/importing.py (reference_sibling / descendent / *)
(* ancestor / cousin with their alias strings, modelled faithfully: S1) together     *)
(* with Python's relative-import semantics for packages laid out as a/b/__init__.py *)
(* (written from the language rules).  For every position of the referring package   *)
(* `cur` and of one or two referenced packages the generated import must resolve to  *)
(* the referenced package (ResolvesToTarget) and two imports of one module must not  *)
(* bind one alias to different modules (AliasesInjective).                           *)
EXTENDS Naturals, Sequences, FiniteSets, TLC

CONSTANT Atoms, MaxDepth, UnderscoreAtoms
RECURSIVE PathsOfLen(_)
PathsOfLen(n) == IF n = 0 THEN { <<>> } ELSE { Append(p, a) : p \in PathsOfLen(n - 1), a \in Atoms }
Paths == UNION { PathsOfLen(n) : n \in 0..MaxDepth }

IsPrefix(p, q) == Len(p) <= Len(q) /\ SubSeq(q, 1, Len(p)) = p
RECURSIVE Common(_, _)
Common(p, q) == IF p = <<>> \/ q = <<>> \/ Head(p) # Head(q) THEN <<>> ELSE <<Head(p)>> \o Common(Tail(p), Tail(q))
RECURSIVE Join(_, _)
Join(p, sep) == IF p = <<>> THEN "" ELSE IF Len(p) = 1 THEN p[1] ELSE p[1] \o sep \o Join(Tail(p), sep)
RECURSIVE Rep(_, _)
Rep(c, n) == IF n = 0 THEN "" ELSE c \o Rep(c, n - 1)
Drop(p, n) == SubSeq(p, n + 1, Len(p))
Last(p) == p[Len(p)]
Front(p) == SubSeq(p, 1, Len(p) - 1)

\* an import line:  from <dots><path> import <name> as <alias>    (dots >= 1; path a sequence of atoms)
\* kind "module": name is a sub-package;  kind "class": name is the class itself (root-package ancestor case)
NoImport == [kind |-> "none"]
Imp(kind, dots, path, name, alias) == [kind |-> kind, dots |-> dots, path |-> path, name |-> name, alias |-> alias]

\* get_type_reference(package = cur, source package = tgt, class name ty)  ->  [imp, ref]
Ref(cur, tgt, ty) ==
  IF tgt = cur THEN [imp |-> NoImport, ref |-> ty]                                         \* sibling
  ELSE IF IsPrefix(cur, tgt) THEN                                                          \* descendent
       LET d == Drop(tgt, Len(cur)) IN
       IF Len(d) > 1 THEN [imp |-> Imp("module", 1, Front(d), Last(d), Join(d, "_")), ref |-> Join(d, "_") \o "." \o ty]
       ELSE [imp |-> Imp("module", 1, <<>>, Last(d), Last(d)), ref |-> Last(d) \o "." \o ty]
  ELSE IF IsPrefix(tgt, cur) THEN                                                          \* ancestor
       LET up == Len(cur) - Len(tgt) IN
       IF tgt # <<>> THEN LET al == "_" \o Rep("_", up) \o Last(tgt) \o "__" IN
                          [imp |-> Imp("module", 2 + up, <<>>, Last(tgt), al), ref |-> al \o "." \o ty]
       ELSE LET al == Rep("_", up) \o ty \o "__" IN
            [imp |-> Imp("class", 1 + up, <<>>, ty, al), ref |-> al]
  ELSE LET sh == Common(cur, tgt)  up == Len(cur) - Len(sh)  rest == Drop(tgt, Len(sh))    \* cousin
           al == Rep("_", up) \o Join(rest, "_") \o "__" IN
       [imp |-> Imp("module", 1 + up, Front(rest), Last(rest), al), ref |-> al \o "." \o ty]

\* Python: inside package `cur` (its __init__.py), "from <dots><path> import name" refers to ...
Base(cur, dots) == SubSeq(cur, 1, Len(cur) - (dots - 1))
Resolvable(cur, imp) == imp.dots - 1 <= Len(cur)           \* else "attempted relative import beyond top-level package"
ModuleOf(cur, imp) == IF imp.kind = "module" THEN Base(cur, imp.dots) \o imp.path \o <<imp.name>>
                      ELSE Base(cur, imp.dots) \o imp.path                                 \* class imported from that module

VARIABLES cur, t1, t2, phase
vars == <<cur, t1, t2, phase>>
Init == cur = <<>> /\ t1 = <<>> /\ t2 = <<>> /\ phase = 0
Next == \/ phase = 0 /\ cur' \in Paths /\ phase' = 1 /\ UNCHANGED <<t1, t2>>
        \/ phase = 1 /\ t1' \in Paths /\ phase' = 2 /\ UNCHANGED <<cur, t2>>
        \/ phase = 2 /\ t2' \in Paths /\ phase' = 3 /\ UNCHANGED <<cur, t1>>
Spec == Init /\ [][Next]_vars

R1 == Ref(cur, t1, "T1")
R2 == Ref(cur, t2, "T2")
ResolvesToTarget ==
  R1.imp.kind # "none" => (Resolvable(cur, R1.imp) /\ ModuleOf(cur, R1.imp) = t1)
AliasesInjective ==
  (R1.imp.kind # "none" /\ R2.imp.kind # "none" /\ R1.imp.alias = R2.imp.alias) => ModuleOf(cur, R1.imp) = ModuleOf(cur, R2.imp)
\* recorded finding: aliases are the '_'-joined relative path, so a package atom that itself contains '_' makes two
\* different paths collide (from . import a_b  /  from .a import b as a_b).  Outside that input class aliases are injective.
AtomHasUnderscore(p) == \E k \in 1..Len(p) : p[k] \in UnderscoreAtoms
KF_AliasCollision == AtomHasUnderscore(t1) \/ AtomHasUnderscore(t2)
AliasesInjectiveExceptKnown == ~KF_AliasCollision => AliasesInjective
=============================================================================
