-------------------------- MODULE Trace_AbsChannel --------------------------
(* Code -> spec: logs of real AsyncChannel executions (driven along TLC-generated  *)
(* schedules or random ones) are stepped through AbsChannel.  One verdict per run. *)
EXTENDS AbsChannel, Json, IOUtils, TLCExt

Shard == JsonDeserialize(IOEnv.TRACE_FILE)
Runs == Shard.events
VARIABLES r, i, st
vars == <<r, i, st>>

TasksOf(run) == { run.tasks[k] : k \in 1..Len(run.tasks) }
Init == r = 1 /\ i = 1 /\ st = IF Len(Runs) >= 1 THEN InitAbs(TasksOf(Runs[1])) ELSE InitAbs({})

Advance == /\ r <= Len(Runs)
           /\ i <= Len(Runs[r].log)
           /\ st.bad = ""
           /\ st' = Step(st, Runs[r].log[i])
           /\ i' = i + 1
           /\ r' = r
Finish == /\ r <= Len(Runs)
          /\ (i > Len(Runs[r].log) \/ st.bad # "")
          /\ PrintT(<<"V", Runs[r].id, IF st.bad = "" THEN "ok" ELSE st.bad, "", i - 1>>)
          /\ r' = r + 1
          /\ i' = 1
          /\ st' = IF r + 1 <= Len(Runs) THEN InitAbs(TasksOf(Runs[r + 1])) ELSE InitAbs({})
Next == Advance \/ Finish
TraceSpec == Init /\ [][Next]_vars
=============================================================================
