---------------------------- MODULE Trace_Bundled ----------------------------
(* The descriptor / plugin / well-known-type classes bundled with betterproto (with *)
(* which the plugin reads its own input) against descriptor.proto, plugin.proto     *)
(* and the well-known .proto files as shipped with the reference implementation:    *)
(* every field the two sides share must carry the same number and type.             *)
EXTENDS Naturals, Sequences, FiniteSets, Json, IOUtils, TLC, TLCExt

Shard == JsonDeserialize(IOEnv.TRACE_FILE)
Events == Shard.events
VARIABLE i
SeqSet(s) == { s[j] : j \in 1..Len(s) }
\* betterproto names a field by the snake_case of the proto name, possibly with a trailing underscore
NameMatches(py, name) == py = name \/ py = name \o "_"
Clause(e) ==
  IF ~e.known THEN "ok"
  ELSE LET bad == { r \in SeqSet(e.ref) : \E f \in SeqSet(e.impl) : NameMatches(f.py, r.name) /\
                       (f.num # r.num \/ (~f.ismap /\ f.ptype # r.ptype)) }
           \* a number both sides know must denote a field of the same type (fields only one side knows - the two
           \* descriptor.proto revisions differ - are not shared and not judged)
           badnum == { r \in SeqSet(e.ref) : \E f \in SeqSet(e.impl) : f.num = r.num /\ ~f.ismap /\ f.ptype # r.ptype } IN
       IF bad # {} THEN "shared_field_differs"
       ELSE IF badnum # {} THEN "shared_field_number_has_other_type"
       ELSE "ok"
Init == i = 1
Next == /\ i <= Len(Events) /\ i' = i + 1
        /\ PrintT(<<"V", Events[i].id, Clause(Events[i]), "", "">>)
TraceSpec == Init /\ [][Next]_i
=============================================================================
