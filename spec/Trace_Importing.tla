-------------------------- MODULE Trace_Importing --------------------------
(* Binding of the Importing model to compile/importing.py: for every ordered pair   *)
(* of package paths the real get_type_reference() is called and its reference        *)
(* string and import line must be the ones the model constructs.                     *)
EXTENDS Importing, Json, IOUtils, TLCExt

Shard == JsonDeserialize(IOEnv.TRACE_FILE)
Events == Shard.events
VARIABLE i

Line(imp) ==
  IF imp.kind = "none" THEN ""
  ELSE "from " \o Rep(".", imp.dots) \o Join(imp.path, ".") \o " import " \o imp.name
       \o (IF imp.alias = imp.name THEN "" ELSE " as " \o imp.alias)
Clause(e) ==
  LET R == Ref(e.cur, e.tgt, "T1") IN
  IF e.ref # R.ref THEN "reference_string_differs_from_model"
  ELSE IF (IF Len(e.imports) = 0 THEN "" ELSE e.imports[1]) # Line(R.imp) THEN "import_line_differs_from_model"
  ELSE IF Len(e.imports) > 1 THEN "more_than_one_import"
  ELSE "ok"
TInit == i = 1
TNext == /\ i <= Len(Events) /\ i' = i + 1
         /\ PrintT(<<"V", Events[i].id, Clause(Events[i]), "", "">>)
         /\ UNCHANGED vars
TraceSpec == TInit /\ Init /\ [][TNext]_<<i, vars>>
=============================================================================
