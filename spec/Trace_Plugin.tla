---------------------------- MODULE Trace_Plugin ----------------------------
(* Code -> spec for the protoc plugin: one event = one program (schema) compiled by *)
(* the real plugin under some options and imported; what the package defines is    *)
(* compared with Plugin!Translate of the schema protoc reported.                    *)
EXTENDS Plugin, KnownFindings, Json, IOUtils, TLCExt

Shard == JsonDeserialize(IOEnv.TRACE_FILE)
Events == Shard.events
VARIABLE i

Missing(exp, obs) == { <<c.mod, c.cls>> : c \in { x \in exp : ~\E y \in obs : y.mod = x.mod /\ y.cls = x.cls } }
FieldDiff(exp, obs) ==
  { <<x.mod, x.cls, x.fields \ (CHOOSE y \in obs : y.mod = x.mod /\ y.cls = x.cls).fields,
                    (CHOOSE y \in obs : y.mod = x.mod /\ y.cls = x.cls).fields \ x.fields>>
    : x \in { c \in exp : \E y \in obs : y.mod = c.mod /\ y.cls = c.cls /\ y.fields # c.fields } }

Clause(e) ==
  IF e.rc # 0 THEN <<"plugin_failed", e.err>>
  ELSE IF e.imp # "ok" THEN <<"generated_package_does_not_import", e.imp>>
  ELSE IF e.errors # <<>> THEN <<"class_cannot_be_introspected", e.errors[1]>>
  ELSE LET em == ExpectedMessages(e.prog, e.pydantic, e.stdmod)  om == ObservedMessages(e.obs)
           ee == ExpectedEnums(e.prog)  oe == ObservedEnums(e.obs) IN
    IF Missing(em, om) # {} THEN <<"message_without_class", Missing(em, om)>>
    ELSE IF Missing(ee, oe) # {} THEN <<"enum_without_class", Missing(ee, oe)>>
    ELSE IF Cardinality(om) # Cardinality(em) \/ Len(e.obs.messages) # Len(e.prog.msgs) THEN <<"not_exactly_one_class_per_message", "">>
    ELSE IF Cardinality(oe) # Cardinality(ee) \/ Len(e.obs.enums) # Len(e.prog.enums) THEN <<"not_exactly_one_class_per_enum", "">>
    ELSE IF FieldDiff(em, om) # {} THEN <<"fields_differ_from_schema", FieldDiff(em, om)>>
    ELSE IF ee # oe THEN <<"enum_numbers_differ_from_schema", "">>
    ELSE IF ExpectedRoutes(e.prog, e.stdmod) # ObservedRoutes(e.obs)
         THEN <<"service_handlers_differ_from_schema", <<ExpectedRoutes(e.prog, e.stdmod) \ ObservedRoutes(e.obs), ObservedRoutes(e.obs) \ ExpectedRoutes(e.prog, e.stdmod)>> >>
    ELSE <<"ok", "">>

HasCapital(pkg) == pkg \in SeqSet(Shard.hdr.capitalized_packages)
\* every field that differs from the schema is explained by one of the two recorded wrapper findings
DiffExplained(e, pred(_, _, _)) ==
  LET fd == FieldDiff(ExpectedMessages(e.prog, e.pydantic, e.stdmod), ObservedMessages(e.obs)) IN
  /\ \A d \in fd : d[3] # {} /\ \A x \in d[3] : MapOfWrapper(e.prog, d[1], d[2], x.num) \/ WrapperShadowed(e.prog, d[1], d[2], x)
  /\ \E d \in fd : \E x \in d[3] : pred(d[1], d[2], x)
\* a field named like a builtin type (float, list, str ...) in a package generated with pydantic_dataclasses: pydantic
\* evaluates the annotations in the class namespace, where that name is already bound to the field
BuiltinNamedField(prog) == \E m \in SeqSet(prog.msgs) : \E j \in 1..Len(m.fields) : m.fields[j].name \in SeqSet(Shard.hdr.builtin_type_names)
KFP(e, clause) ==
  IF clause \in {"generated_package_does_not_import", "class_cannot_be_introspected"} /\ e.pydantic /\ BuiltinNamedField(e.prog)
  THEN "KF_C18_BuiltinNamedFieldUnderPydantic"
  ELSE IF clause = "fields_differ_from_schema" /\ ~ClassNameClash(e.prog)
     /\ DiffExplained(e, LAMBDA mod, cls, x : MapOfWrapper(e.prog, mod, cls, x.num)) THEN "KF_C03_WrapperAsMapValue"
  ELSE IF clause = "fields_differ_from_schema" /\ ~ClassNameClash(e.prog)
     /\ DiffExplained(e, LAMBDA mod, cls, x : WrapperShadowed(e.prog, mod, cls, x)) THEN "KF_C03_WrapperShadowedByFieldName"
  ELSE IF clause \in {"class_cannot_be_introspected", "generated_package_does_not_import", "fields_differ_from_schema"}
          /\ AliasCollisionInput(e.prog) THEN "KF_C13_AliasCollision"
  ELSE IF clause = "class_cannot_be_introspected" /\ (\E m \in SeqSet(e.prog.msgs) : HasCapital(m.pkg)) THEN "KF_C13_CapitalizedPackage"
  ELSE IF clause \in {"not_exactly_one_class_per_message", "not_exactly_one_class_per_enum", "fields_differ_from_schema",
                 "enum_without_class", "message_without_class", "class_cannot_be_introspected", "generated_package_does_not_import"}
     /\ e.rc = 0 /\ ClassNameClash(e.prog) THEN "KF_C03_FlattenedNameClash"
  ELSE ""

Init == i = 1
Next == /\ i <= Len(Events)
        /\ i' = i + 1
        /\ LET c == Clause(Events[i]) IN
           PrintT(<<"V", Events[i].id, c[1], IF c[1] = "ok" THEN "" ELSE KFP(Events[i], c[1]), c[2]>>)
TraceSpec == Init /\ [][Next]_i
=============================================================================
