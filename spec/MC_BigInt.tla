----------------------------- MODULE MC_BigInt -----------------------------
(* Soundness of the digit arithmetic against TLC's native integers, exhaustively  *)
(* for all pairs below Bound, plus the encoder/decoder *loops* of betterproto     *)
(* (dump_varint / load_varint) as a step machine on native integers: their        *)
(* result must be the digit-level EncVarint / DecVarint.                          *)
EXTENDS Varint, TLC

CONSTANTS Bound, Ks

VARIABLES a, b, value, out, phase
vars == <<a, b, value, out, phase>>

Init == a = 0 /\ b = 0 /\ value = 0 /\ out = <<>> /\ phase = "pickA"
PickA == phase = "pickA" /\ a' \in 0..Bound /\ phase' = "pickB" /\ UNCHANGED <<b, value, out>>
PickB == phase = "pickB" /\ b' \in 0..Bound /\ phase' = "enc" /\ value' = a /\ UNCHANGED <<a, out>>

\* dump_varint: bits = value & 0x7f; value >>= 7; while value: write(0x80|bits); ... ; write(bits)
EncStep == /\ phase = "enc"
           /\ LET bits == value % 128  rest == value \div 128 IN
              IF rest # 0 THEN out' = Append(out, 128 + bits) /\ value' = rest /\ phase' = "enc"
              ELSE out' = Append(out, bits) /\ value' = 0 /\ phase' = "dec"
           /\ UNCHANGED <<a, b>>
\* load_varint: result |= (b & 0x7f) << shift; stop at the first byte without the continuation bit
DecStep == /\ phase = "dec"
           /\ value' = (LET F[i \in 0..Len(out)] == IF i = 0 THEN 0 ELSE F[i - 1] + ((out[i] % 128) * (128 ^ (i - 1))) IN F[Len(out)])
           /\ phase' = "done"
           /\ UNCHANGED <<a, b, out>>
Next == PickA \/ PickB \/ EncStep \/ DecStep
Spec == Init /\ [][Next]_vars

A == FromNat(a)
Bm == FromNat(b)
S_FromTo == ToNat(A) = a /\ IsMag(A)
S_Add == ToNat(AddMag(A, Bm)) = a + b /\ IsMag(AddMag(A, Bm))
S_Sub == a >= b => (ToNat(SubMag(A, Bm)) = a - b /\ IsMag(SubMag(A, Bm)))
S_Cmp == CmpMag(A, Bm) = (IF a < b THEN -1 ELSE IF a > b THEN 1 ELSE 0)
S_Mul == \A k \in Ks : ToNat(MulSmall(A, k)) = a * k
S_Div == \A k \in Ks : k > 0 => LET dm == DivModSmall(A, k) IN ToNat(dm.q) = a \div k /\ dm.r = a % k
S_Signed == LET x == IntOfSmall(a - b) IN
            /\ ToSmall(Sub(IntOfNat(a), IntOfNat(b))) = a - b
            /\ ToSmall(Add(x, IntOfNat(b))) = a
            /\ \A k \in Ks : k > 0 => LET fd == FloorDivMod(x, k) IN ToSmall(fd.q) = (a - b) \div k /\ fd.r = (a - b) % k
S_Bits == /\ BitLen(A) = (CHOOSE j \in 0..31 : (a < 2 ^ j) /\ (j = 0 \/ a >= 2 ^ (j - 1)))
          /\ ToNat(Half(A)) = a \div 2
          /\ ToNat(TruncBits(A, 9)) = a % 512
          /\ \A j \in 0..12 : TestBit(A, j) = ((a \div (2 ^ j)) % 2 = 1)
S_TC16 == LET x == IntOfSmall(a - b) IN
          FitsSigned(x, 16) = (a - b >= -32768 /\ a - b < 32768)
          /\ (FitsSigned(x, 16) => ToNat(TC(x, 16)) = (IF a - b < 0 THEN 65536 + (a - b) ELSE a - b))
S_Zig == LET x == IntOfSmall(a - b) IN ToNat(ZigZag(x)) = (IF a - b >= 0 THEN 2 * (a - b) ELSE (2 * (b - a)) - 1)
S_Bytes == ToBytes(A, 3) = <<a % 256, (a \div 256) % 256, (a \div 65536) % 256>> /\ FromBytes(ToBytes(A, 3)) = A
L_Enc == phase \in {"dec", "done"} => out = EncVarint(A)
L_Dec == phase = "done" => value = a /\ DecVarint(out, 1).val = A
=============================================================================
