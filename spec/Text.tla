-------------------------------- MODULE Text --------------------------------
(* Text as sequences of Unicode code points (TLC strings are atomic).            *)
EXTENDS BigInt

Utf8Of(c) ==
  IF c < 128 THEN <<c>>
  ELSE IF c < 2048 THEN <<192 + (c \div 64), 128 + (c % 64)>>
  ELSE IF c < 65536 THEN <<224 + (c \div 4096), 128 + ((c \div 64) % 64), 128 + (c % 64)>>
  ELSE <<240 + (c \div 262144), 128 + ((c \div 4096) % 64), 128 + ((c \div 64) % 64), 128 + (c % 64)>>
RECURSIVE Utf8(_)
Utf8(cps) == IF cps = <<>> THEN <<>> ELSE Utf8Of(Head(cps)) \o Utf8(Tail(cps))

\* decoder: [ok, cps]; rejects overlong forms, surrogates, > U+10FFFF, truncated sequences
RECURSIVE Utf8Dec(_, _, _)
Cont(b, p) == p <= Len(b) /\ b[p] >= 128 /\ b[p] < 192
Utf8Dec(b, p, acc) ==
  IF p > Len(b) THEN [ok |-> TRUE, cps |-> acc]
  ELSE LET c == b[p] IN
    IF c < 128 THEN Utf8Dec(b, p + 1, Append(acc, c))
    ELSE IF c >= 194 /\ c < 224 /\ Cont(b, p + 1)
         THEN Utf8Dec(b, p + 2, Append(acc, ((c - 192) * 64) + (b[p + 1] - 128)))
    ELSE IF c >= 224 /\ c < 240 /\ Cont(b, p + 1) /\ Cont(b, p + 2)
         THEN LET v == ((c - 224) * 4096) + ((b[p + 1] - 128) * 64) + (b[p + 2] - 128) IN
              IF v < 2048 \/ (v >= 55296 /\ v < 57344) THEN [ok |-> FALSE, cps |-> acc]
              ELSE Utf8Dec(b, p + 3, Append(acc, v))
    ELSE IF c >= 240 /\ c < 245 /\ Cont(b, p + 1) /\ Cont(b, p + 2) /\ Cont(b, p + 3)
         THEN LET v == ((c - 240) * 262144) + ((b[p + 1] - 128) * 4096) + ((b[p + 2] - 128) * 64) + (b[p + 3] - 128) IN
              IF v < 65536 \/ v > 1114111 THEN [ok |-> FALSE, cps |-> acc]
              ELSE Utf8Dec(b, p + 4, Append(acc, v))
    ELSE [ok |-> FALSE, cps |-> acc]
Utf8Decode(b) == Utf8Dec(b, 1, <<>>)
Utf8Valid(b) == Utf8Decode(b).ok

(* decimal numerals as code points *)
RECURSIVE DecDigits(_)
DecDigits(m) == IF m = <<>> THEN <<>> ELSE LET dm == DivModSmall(m, 10) IN Append(DecDigits(dm.q), 48 + dm.r)
DecMag(m) == IF m = <<>> THEN <<48>> ELSE DecDigits(m)
Dec(n) == IF n.neg THEN <<45>> \o DecMag(n.mag) ELSE DecMag(n.mag)
DecNat(k) == DecMag(FromNat(k))
RECURSIVE PadLeft(_, _, _)
PadLeft(s, w, c) == IF Len(s) >= w THEN s ELSE PadLeft(<<c>> \o s, w, c)
\* parse an optionally signed decimal numeral: [ok, n]
RECURSIVE ParseDigits(_, _, _)
ParseDigits(s, p, acc) == IF p > Len(s) THEN [ok |-> TRUE, m |-> acc]
                          ELSE IF s[p] < 48 \/ s[p] > 57 THEN [ok |-> FALSE, m |-> acc]
                          ELSE ParseDigits(s, p + 1, AddMag(MulSmall(acc, 10), FromNat(s[p] - 48)))
ParseDec(s) == IF s = <<>> THEN [ok |-> FALSE, n |-> Zero]
               ELSE IF s[1] = 45 THEN (IF Len(s) = 1 THEN [ok |-> FALSE, n |-> Zero]
                                       ELSE LET r == ParseDigits(s, 2, <<>>) IN [ok |-> r.ok, n |-> MkInt(TRUE, r.m)])
               ELSE LET r == ParseDigits(s, 1, <<>>) IN [ok |-> r.ok, n |-> MkInt(FALSE, r.m)]

(* standard base64 with padding, as code points *)
B64Char(v) == IF v < 26 THEN 65 + v ELSE IF v < 52 THEN 97 + (v - 26) ELSE IF v < 62 THEN 48 + (v - 52)
              ELSE IF v = 62 THEN 43 ELSE 47
RECURSIVE Base64(_)
Base64(b) ==
  IF b = <<>> THEN <<>>
  ELSE IF Len(b) = 1 THEN <<B64Char(b[1] \div 4), B64Char((b[1] % 4) * 16), 61, 61>>
  ELSE IF Len(b) = 2 THEN <<B64Char(b[1] \div 4), B64Char(((b[1] % 4) * 16) + (b[2] \div 16)), B64Char((b[2] % 16) * 4), 61>>
  ELSE <<B64Char(b[1] \div 4), B64Char(((b[1] % 4) * 16) + (b[2] \div 16)),
         B64Char(((b[2] % 16) * 4) + (b[3] \div 64)), B64Char(b[3] % 64)>> \o Base64(SubSeq(b, 4, Len(b)))
\* value of a base64 / base64url character, -1 if none
B64Val(c) == IF c >= 65 /\ c <= 90 THEN c - 65 ELSE IF c >= 97 /\ c <= 122 THEN c - 71
             ELSE IF c >= 48 /\ c <= 57 THEN c + 4 ELSE IF c = 43 \/ c = 45 THEN 62 ELSE IF c = 47 \/ c = 95 THEN 63 ELSE -1
RECURSIVE UnB64(_, _, _)
\* lenient decoder (standard or url-safe alphabet, padding optional): [ok, b]
UnB64(s, p, acc) ==
  LET n == Len(s) - p + 1 IN
  IF n <= 0 THEN [ok |-> TRUE, b |-> acc]
  ELSE LET v(i) == IF p + i <= Len(s) /\ s[p + i] # 61 THEN B64Val(s[p + i]) ELSE -2
           a == v(0)  bb == v(1)  c == v(2)  d == v(3) IN
       IF a < 0 \/ bb < 0 \/ c = -1 \/ d = -1 THEN [ok |-> FALSE, b |-> acc]
       ELSE IF c = -2 THEN [ok |-> (d = -2), b |-> Append(acc, (a * 4) + (bb \div 16))]
       ELSE IF d = -2 THEN [ok |-> TRUE, b |-> acc \o <<(a * 4) + (bb \div 16), ((bb % 16) * 16) + (c \div 4)>>]
       ELSE UnB64(s, p + 4, acc \o <<(a * 4) + (bb \div 16), ((bb % 16) * 16) + (c \div 4), ((c % 4) * 64) + d>>)
Base64Decode(s) == UnB64(s, 1, <<>>)
=============================================================================
