------------------------------ MODULE TimeConv ------------------------------
(* google.protobuf.Timestamp / Duration normal forms and their text forms, from   *)
(* timestamp.proto / duration.proto and the proto3 JSON mapping.                  *)
EXTENDS Text

Million == 1000000
\* microseconds since the epoch -> (seconds, nanos) with nanos in [0, 1e9)
TsOfMicros(us) == LET dm == FloorDivMod(us, Million) IN [s |-> dm.q, n |-> IntOfNat(dm.r * 1000)]
\* signed microseconds -> (seconds, nanos), truncation toward zero, both of the sign of the span
DurOfMicros(us) == LET dm == TruncDivMod(us, Million) IN [s |-> dm.q, n |-> IntOfSmall(dm.r * 1000)]
MicrosOfTs(t) == Add(MulK(t.s, Million), IntOfSmall(ToSmall(t.n) \div 1000))         \* nanos multiple of 1000
MicrosOfDur(d) == LET nn == ToSmall(d.n) IN
                  Add(MulK(d.s, Million), IntOfSmall(IF nn < 0 THEN -((-nn) \div 1000) ELSE nn \div 1000))
TsNormal(t) == ToSmall(t.n) >= 0 /\ ToSmall(t.n) < 1000000000
DurNormal(d) == LET nn == ToSmall(d.n) IN
                /\ nn > -1000000000 /\ nn < 1000000000
                /\ ~(d.s.neg /\ nn > 0) /\ ~(~d.s.neg /\ ~IsZero(d.s) /\ nn < 0)
\* valid ranges: 0001-01-01T00:00:00Z .. 9999-12-31T23:59:59Z ; +-315,576,000,000 s
TsSecMin == MkInt(TRUE, AddMag(MulSmall(FromNat(62135596), 1000), FromNat(800)))      \* -62135596800
TsSecMax == MkInt(FALSE, AddMag(MulSmall(FromNat(253402300), 1000), FromNat(799)))    \* 253402300799
DurSecMax == MkInt(FALSE, MulSmall(FromNat(315576000), 1000))                        \* 315576000000
TsInRange(t) == Cmp(t.s, TsSecMin) >= 0 /\ Cmp(t.s, TsSecMax) <= 0
DurInRange(d) == Cmp(d.s, DurSecMax) <= 0 /\ Cmp(d.s, Neg(DurSecMax)) >= 0

(* civil date from days since 1970-01-01 (proleptic Gregorian; Howard Hinnant's algorithm), small ints only *)
CivilFromDays(z0) ==
  LET z == z0 + 719468
      era == (IF z >= 0 THEN z ELSE z - 146096) \div 146097
      doe == z - (era * 146097)
      yoe == (((doe - (doe \div 1460)) + (doe \div 36524)) - (doe \div 146096)) \div 365
      y == yoe + (era * 400)
      doy == doe - (((365 * yoe) + (yoe \div 4)) - (yoe \div 100))
      mp == ((5 * doy) + 2) \div 153
      d == (doy - (((153 * mp) + 2) \div 5)) + 1
      m == IF mp < 10 THEN mp + 3 ELSE mp - 9
  IN [y |-> IF m <= 2 THEN y + 1 ELSE y, m |-> m, d |-> d]
DaysFromCivil(y0, m, d) ==
  LET y == IF m <= 2 THEN y0 - 1 ELSE y0
      era == (IF y >= 0 THEN y ELSE y - 399) \div 400
      yoe == y - (era * 400)
      doy == (((153 * (IF m > 2 THEN m - 3 ELSE m + 9)) + 2) \div 5) + (d - 1)
      doe == ((yoe * 365) + (yoe \div 4)) - (yoe \div 100) + doy
  IN ((era * 146097) + doe) - 719468

Two(k) == PadLeft(DecNat(k), 2, 48)
\* fractional part: 0, 3, 6 or 9 digits
Frac(nanos) == IF nanos = 0 THEN <<>>
               ELSE IF nanos % 1000000 = 0 THEN <<46>> \o PadLeft(DecNat(nanos \div 1000000), 3, 48)
               ELSE IF nanos % 1000 = 0 THEN <<46>> \o PadLeft(DecNat(nanos \div 1000), 6, 48)
               ELSE <<46>> \o PadLeft(DecNat(nanos), 9, 48)
\* RFC 3339 UTC text of a normal, in-range timestamp
Rfc3339(t) ==
  LET dd == FloorDivMod(t.s, 86400)
      c == CivilFromDays(ToSmall(dd.q))
      sod == dd.r
  IN PadLeft(DecNat(c.y), 4, 48) \o <<45>> \o Two(c.m) \o <<45>> \o Two(c.d) \o <<84>> \o Two(sod \div 3600) \o <<58>>
     \o Two((sod \div 60) % 60) \o <<58>> \o Two(sod % 60) \o Frac(ToSmall(t.n)) \o <<90>>
\* decimal seconds with 's' suffix of a normal duration
DurText(d) ==
  LET nn == ToSmall(d.n)  negv == d.s.neg \/ nn < 0 IN
  (IF negv THEN <<45>> ELSE <<>>) \o DecMag(d.s.mag) \o Frac(IF nn < 0 THEN -nn ELSE nn) \o <<115>>

(* parsers for the text forms (what a conforming reader accepts): [ok, v] *)
Digits(s, a, b) == \A i \in a..b : i <= Len(s) /\ s[i] >= 48 /\ s[i] <= 57
NatAt(s, a, b) == ToNat(ParseDigits(SubSeq(s, a, b), 1, <<>>).m)
RECURSIVE FracEnd(_, _)
FracEnd(s, p) == IF p <= Len(s) /\ s[p] >= 48 /\ s[p] <= 57 THEN FracEnd(s, p + 1) ELSE p
\* nanos from up to 9 fractional digits s[a..b]
FracNanos(s, a, b) == IF b < a THEN 0 ELSE NatAt(s, a, b) * (10 ^ (9 - ((b - a) + 1)))
ParseRfc3339(s) ==
  IF ~(Len(s) >= 20 /\ Digits(s, 1, 4) /\ s[5] = 45 /\ Digits(s, 6, 7) /\ s[8] = 45 /\ Digits(s, 9, 10) /\ (s[11] = 84 \/ s[11] = 116)
       /\ Digits(s, 12, 13) /\ s[14] = 58 /\ Digits(s, 15, 16) /\ s[17] = 58 /\ Digits(s, 18, 19))
  THEN [ok |-> FALSE, v |-> [s |-> Zero, n |-> Zero]]
  ELSE LET y == NatAt(s, 1, 4)  mo == NatAt(s, 6, 7)  d == NatAt(s, 9, 10)
           h == NatAt(s, 12, 13)  mi == NatAt(s, 15, 16)  se == NatAt(s, 18, 19)
           fe == IF s[20] = 46 THEN FracEnd(s, 21) ELSE 20
           nanos == IF s[20] = 46 THEN FracNanos(s, 21, fe - 1) ELSE 0
           fracok == s[20] # 46 \/ (fe > 21 /\ fe - 21 <= 9)
           zone == SubSeq(s, fe, Len(s))
           zok == zone = <<90>> \/ zone = <<122>> \/
                  (Len(zone) = 6 /\ (zone[1] = 43 \/ zone[1] = 45) /\ Digits(zone, 2, 3) /\ zone[4] = 58 /\ Digits(zone, 5, 6))
           off == IF Len(zone) = 6 THEN (IF zone[1] = 45 THEN -1 ELSE 1) * ((NatAt(zone, 2, 3) * 3600) + (NatAt(zone, 5, 6) * 60)) ELSE 0
           days == DaysFromCivil(y, mo, d)
           secs == Sub(Add(MulK(IntOfSmall(days), 86400), IntOfNat((h * 3600) + (mi * 60) + se)), IntOfSmall(off))
       IN [ok |-> fracok /\ zok /\ mo >= 1 /\ mo <= 12 /\ d >= 1 /\ d <= 31 /\ h < 24 /\ mi < 60 /\ se < 61,
           v |-> [s |-> secs, n |-> IntOfNat(nanos)]]
ParseDurText(s) ==
  IF Len(s) < 2 \/ s[Len(s)] # 115 THEN [ok |-> FALSE, v |-> [s |-> Zero, n |-> Zero]]
  ELSE LET negv == s[1] = 45
           st == IF negv THEN 2 ELSE 1
           ie == FracEnd(s, st)
           hasf == ie <= Len(s) /\ s[ie] = 46
           fe == IF hasf THEN FracEnd(s, ie + 1) ELSE ie
           nanos == IF hasf THEN FracNanos(s, ie + 1, fe - 1) ELSE 0
           ok == ie > st /\ fe = Len(s) /\ (~hasf \/ (fe > ie + 1 /\ fe - (ie + 1) <= 9))
           secs == ParseDigits(SubSeq(s, st, ie - 1), 1, <<>>).m
       IN [ok |-> ok, v |-> [s |-> MkInt(negv, secs), n |-> IntOfSmall(IF negv THEN -nanos ELSE nanos)]]
=============================================================================
