----------------------------- MODULE Trace_Codec -----------------------------
(* Code -> spec for message-level events.  Each event of a shard is judged by the   *)
(* operators of Codec.tla; one verdict line per event <<"V", id, clause, kf, detail>> *)
(* (clause = "ok" or the name of the first failing criterion).                        *)
EXTENDS Codec, KnownFindings, Json, IOUtils, TLC, TLCExt

Shard == JsonDeserialize(IOEnv.TRACE_FILE)
Events == Shard.events
Idx == MkIndex(Shard.hdr.schema.types)
VARIABLE i

Diff(d, want) == DiffFields(d, want)

(* ---- rt: m built from the abstract value e.val; b = bytes(m); obs = observation of parse(b); b2 = bytes(parse(b)) ---- *)
RtClause(e) ==
  IF e.res # "ok" THEN <<"raises_" \o e.res, "">>
  ELSE LET d == SpecDecode(Idx, e.ty, e.b)  want == NormMsg(e.val) IN
    IF ~d.ok THEN <<"wire_malformed_" \o d.err, "">>
    ELSE IF d.unk # <<>> THEN <<"wire_has_unknown_fields", "">>
    ELSE IF NormMsg(d.val) # want THEN <<"wire_value", Diff(NormMsg(d.val), want)>>
    ELSE IF NormMsg(e.obs) # want THEN <<"parsed_value", Diff(NormMsg(e.obs), want)>>
    ELSE IF ~e.eq THEN <<"parsed_not_equal", "">>
    ELSE IF e.b2 # e.b THEN <<"reencode_differs", "">>
    ELSE <<"ok", "">>

(* ---- len: C09 on the same kind of event: len(m), dump, dump delimited, SerializeToString against bytes(m) ---- *)
LenClause(e) ==
  IF e.res # "ok" THEN <<"raises_" \o e.res, "">>
  ELSE IF e.len # Len(e.b) THEN <<"len_differs", <<e.len, Len(e.b)>> >>
  ELSE IF e.dump # e.b THEN <<"dump_differs", "">>
  ELSE IF e.sts # e.b THEN <<"serialize_to_string_differs", "">>
  ELSE IF e.delim # EncVarint(FromNat(Len(e.b))) \o e.b THEN <<"delimited_framing", "">>
  ELSE <<"ok", "">>

(* ---- xdec: bytes e.b (a legal encoding of e.val produced by the spec's LegalEnc, or by the other implementation)
        decoded by implementation e.impl; obs = its observation; b2 = its re-encoding ---- *)
XdecClause(e) ==
  LET d == SpecDecode(Idx, e.ty, e.b)  want == NormMsg(e.val)  frombp == e.src = "bp" IN
  IF e.b = <<-1>> THEN <<"encode_raises_" \o e.res, "">>
  ELSE IF ~d.ok THEN <<(IF frombp THEN "emitted_bytes_malformed_" ELSE "spec_rejects_") \o d.err, "">>
  ELSE IF d.merged THEN <<"ok", "">>                                  \* split sub-message: outside the statement
  ELSE IF NormMsg(d.val) # want THEN <<IF frombp THEN "emitted_bytes_value" ELSE "spec_value", Diff(NormMsg(d.val), want)>>
  ELSE IF e.res # "ok" THEN <<(IF e.impl = "bp" THEN "decode_raises_" ELSE "ref_decode_raises_") \o e.res, "">>
  ELSE IF NormMsg(e.obs) # want THEN <<IF e.impl = "bp" THEN "decoded_value" ELSE "ref_decoded_value", Diff(NormMsg(e.obs), want)>>
  ELSE <<"ok", "">>

(* ---- evo: schema evolution.  e.val of the newer type e.ty was serialised (e.b); an older reader e.oty parsed it
        (e.obs_old), re-serialised it (e.b_old); the newer type parsed that (e.obs_new); the reference too (e.obs_ref) ---- *)
EvoClause(e) ==
  IF e.res # "ok" THEN <<"raises_" \o e.res, "">>
  ELSE LET dn == SpecDecode(Idx, e.ty, e.b)
           dold == SpecDecode(Idx, e.oty, e.b)
           dre == SpecDecode(Idx, e.oty, e.b_old)
           want == NormMsg(e.val) IN
    IF ~dn.ok \/ ~dold.ok THEN <<"wire_malformed", "">>
    ELSE IF NormMsg(dn.val) # want THEN <<"wire_value", Diff(NormMsg(dn.val), want)>>
    ELSE IF NormMsg(e.obs_old) # NormMsg(dold.val) THEN <<"old_reader_known_fields", Diff(NormMsg(e.obs_old), NormMsg(dold.val))>>
    ELSE IF ~dre.ok THEN <<"reemission_malformed_" \o dre.err, "">>
    ELSE IF dre.unk # dold.unk THEN <<"unknown_fields_not_reemitted_verbatim", <<dre.unk, dold.unk>> >>
    ELSE IF NormMsg(dre.val) # NormMsg(dold.val) THEN <<"reemission_known_fields", Diff(NormMsg(dre.val), NormMsg(dold.val))>>
    ELSE IF NormMsg(e.obs_new) # want THEN <<"new_reader_after_old_writer", Diff(NormMsg(e.obs_new), want)>>
    ELSE IF NormMsg(e.obs_ref) # want THEN <<"reference_reads_reemission", Diff(NormMsg(e.obs_ref), want)>>
    ELSE IF e.stream # "ok" THEN <<"older_reader_on_delimited_stream_" \o e.stream, "">>
    ELSE <<"ok", "">>

(* ---- unk: a LegalEnc encoding e.b of e.val with interleaved unknown fields (raw bytes e.unk, arrival order):
        betterproto's observation, and its re-encoding e.b2 ---- *)
UnkClause(e) ==
  LET want == NormMsg(e.val) IN
  IF e.res # "ok" THEN <<"raises_" \o e.res, "">>
  ELSE IF NormMsg(e.obs) # want THEN <<"known_fields_disturbed", Diff(NormMsg(e.obs), want)>>
  ELSE LET d2 == SpecDecode(Idx, e.ty, e.b2) IN
       IF ~d2.ok THEN <<"reemission_malformed_" \o d2.err, "">>
       ELSE IF d2.unk # e.unk THEN <<"unknown_fields_not_reemitted_verbatim", <<d2.unk, e.unk>> >>
       ELSE IF NormMsg(d2.val) # want THEN <<"reemission_known_fields", Diff(NormMsg(d2.val), want)>>
       ELSE <<"ok", "">>

(* ---- mal: arbitrary bytes e.b given to the decoder of type e.ty.  e.res: "ok" | "raise" | "hang";
        when ok: e.typed (every field holds a value of its declared type, e.obs readable), e.reenc ("ok" or not), e.b2 ---- *)
MustReject == {"truncated_tag", "truncated_varint", "truncated_fixed64", "truncated_fixed32", "truncated_length",
               "truncated_payload", "bad_wiretype", "field_zero"}
MalClause(e) ==
  LET d == SpecDecode(Idx, e.ty, e.b) IN
  IF e.res = "hang" THEN <<"does_not_terminate", "">>
  ELSE IF e.res = "raise" THEN <<"ok", "">>                         \* rejecting is always allowed
  ELSE IF ~e.typed THEN <<"ill_typed_field_value", e.note>>
  ELSE IF e.reenc # "ok" THEN <<"cannot_be_encoded_again", e.reenc>>
  ELSE IF ~d.ok THEN (IF d.err \in MustReject THEN <<"accepted_" \o d.err, "">> ELSE <<"ok", "">>)
  ELSE IF d.merged THEN <<"ok", "">>
  ELSE IF NormMsg(e.obs) # NormMsg(d.val) THEN <<"known_field_altered_or_misdecoded", Diff(NormMsg(e.obs), NormMsg(d.val))>>
  ELSE LET d2 == SpecDecode(Idx, e.ty, e.b2) IN
       IF ~d2.ok THEN <<"reemission_malformed_" \o d2.err, "">>
       ELSE IF d2.unk # d.unk THEN <<"mismatched_or_unknown_occurrence_not_kept", <<d2.unk, d.unk>> >>
       ELSE <<"ok", "">>

Clause(e) == CASE e.op = "rt" -> RtClause(e)
               [] e.op = "mal" -> MalClause(e)
               [] e.op = "evo" -> EvoClause(e)
               [] e.op = "unk" -> UnkClause(e)
               [] e.op = "xdec" -> XdecClause(e)
               [] e.op = "len" -> LenClause(e)

Init == i = 1
Next == /\ i <= Len(Events)
        /\ i' = i + 1
        /\ LET c == Clause(Events[i]) IN
           PrintT(<<"V", Events[i].id, c[1], IF c[1] = "ok" THEN "" ELSE KF(Events[i], c[1]), c[2]>>)
TraceSpec == Init /\ [][Next]_i
=============================================================================
