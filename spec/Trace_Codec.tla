----------------------------- MODULE Trace_Codec -----------------------------
(* Code -> spec for message-level events.  Each event of a shard is judged by the   *)
(* operators of Codec.tla; one verdict line per event <<"V", id, clause, kf, detail>> *)
(* (clause = "ok" or the name of the first failing criterion).                        *)
EXTENDS Codec, KnownFindings, Json, IOUtils, TLC, TLCExt

Shard == JsonDeserialize(IOEnv.TRACE_FILE)
Events == Shard.events
Idx == MkIndex(Shard.hdr.schema.types)
VARIABLE i

Diff(d, want) == DiffFields(d, want)

(* ---- rt: m built from the abstract value e.val; b = bytes(m); obs = observation of parse(b); b2 = bytes(parse(b)) ---- *)
RtClause(e) ==
  IF e.res # "ok" THEN <<"raises_" \o e.res, "">>
  ELSE LET d == SpecDecode(Idx, e.ty, e.b)  want == NormMsg(e.val) IN
    IF ~d.ok THEN <<"wire_malformed_" \o d.err, "">>
    ELSE IF d.unk # <<>> THEN <<"wire_has_unknown_fields", "">>
    ELSE IF NormMsg(d.val) # want THEN <<"wire_value", Diff(NormMsg(d.val), want)>>
    ELSE IF NormMsg(e.obs) # want THEN <<"parsed_value", Diff(NormMsg(e.obs), want)>>
    ELSE IF ~e.eq THEN <<"parsed_not_equal", "">>
    ELSE IF e.b2 # e.b THEN <<"reencode_differs", "">>
    ELSE <<"ok", "">>

(* ---- len: C09 on the same kind of event: len(m), dump, dump delimited, SerializeToString against bytes(m) ---- *)
LenClause(e) ==
  IF e.res # "ok" THEN <<"raises_" \o e.res, "">>
  ELSE IF e.len # Len(e.b) THEN <<"len_differs", <<e.len, Len(e.b)>> >>
  ELSE IF e.dump # e.b THEN <<"dump_differs", "">>
  ELSE IF e.sts # e.b THEN <<"serialize_to_string_differs", "">>
  ELSE IF e.delim # EncVarint(FromNat(Len(e.b))) \o e.b THEN <<"delimited_framing", "">>
  ELSE <<"ok", "">>

(* ---- xdec: bytes e.b (a legal encoding of e.val produced by the spec's LegalEnc, or by the other implementation)
        decoded by implementation e.impl; obs = its observation; b2 = its re-encoding ---- *)
XdecClause(e) ==
  LET d == SpecDecode(Idx, e.ty, e.b)  want == NormMsg(e.val) IN
  IF ~d.ok THEN <<"spec_rejects_" \o d.err, "">>
  ELSE IF d.merged THEN <<"ok", "">>                                  \* split sub-message: outside the statement
  ELSE IF NormMsg(d.val) # want THEN <<"spec_value", Diff(NormMsg(d.val), want)>>
  ELSE IF e.res # "ok" THEN <<"decode_raises_" \o e.res, "">>
  ELSE IF NormMsg(e.obs) # want THEN <<"decoded_value", Diff(NormMsg(e.obs), want)>>
  ELSE <<"ok", "">>

Clause(e) == CASE e.op = "rt" -> RtClause(e)
               [] e.op = "xdec" -> XdecClause(e)
               [] e.op = "len" -> LenClause(e)

Init == i = 1
Next == /\ i <= Len(Events)
        /\ i' = i + 1
        /\ LET c == Clause(Events[i]) IN
           PrintT(<<"V", Events[i].id, c[1], IF c[1] = "ok" THEN "" ELSE KF(Events[i], c[1]), c[2]>>)
TraceSpec == Init /\ [][Next]_i
=============================================================================
