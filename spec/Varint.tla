------------------------------- MODULE Varint -------------------------------
(***************************************************************************)
(* Base-128 varints, zig-zag, fixed-width little-endian integers: the      *)
(* scalar layer of the protobuf wire format, written from the encoding     *)
(* specification (not from betterproto's code).                            *)
(***************************************************************************)
EXTENDS BigInt

Min64 == [neg |-> TRUE, mag |-> Pow2Mag(63)]
Max64U == SubMag(Pow2Mag(64), <<1>>)

(* canonical minimal varint of an unsigned magnitude *)
EncVarint(u) == IF u = <<>> THEN <<0>>
                ELSE [i \in 1..Len(u) |-> IF i < Len(u) THEN u[i] + 128 ELSE u[i]]
SizeVarint(u) == IF u = <<>> THEN 1 ELSE Len(u)
(* an integer as betterproto's encode_varint takes it: negatives as 64-bit two's complement *)
EncodableInt(n) == IF n.neg THEN CmpMag(n.mag, Pow2Mag(63)) <= 0 ELSE BitLen(n.mag) <= 64
EncVarintInt(n) == EncVarint(TC(n, 64))
SizeVarintInt(n) == SizeVarint(TC(n, 64))

(* decoder: at most 10 bytes; result magnitude is the raw (up to 70 bit) value *)
RECURSIVE DV(_, _, _, _)
DV(b, p, acc, n) ==
  IF n >= 10 THEN [ok |-> FALSE, err |-> "toolong", val |-> <<>>, next |-> p]
  ELSE IF p > Len(b) THEN [ok |-> FALSE, err |-> "eof", val |-> <<>>, next |-> p]
  ELSE IF b[p] >= 128 THEN DV(b, p + 1, Append(acc, b[p] - 128), n + 1)
  ELSE [ok |-> TRUE, err |-> "", val |-> StripZ(Append(acc, b[p])), next |-> p + 1]
DecVarint(b, p) == DV(b, p, <<>>, 0)          \* p is 1-based
(* the value a 64-bit reader sees *)
Dec64(b, p) == LET d == DecVarint(b, p) IN [d EXCEPT !.val = TruncBits(d.val, 64)]

(* a legal but non-minimal varint: k extra continuation digits *)
PadVarint(u, k) == LET base == IF u = <<>> THEN <<0>> ELSE u
                       n == Len(base) + k IN
                   [i \in 1..n |-> (IF i <= Len(base) THEN base[i] ELSE 0) + (IF i < n THEN 128 ELSE 0)]

\* as much padding as stays within the 10-byte limit
PadVarintCapped(u, k) == LET n == IF u = <<>> THEN 1 ELSE Len(u) IN PadVarint(u, IF n + k > 10 THEN 10 - n ELSE k)

(* ------------------------- scalar kinds ------------------------- *)
VarintKinds == {"int32", "int64", "uint32", "uint64", "sint32", "sint64", "bool", "enum"}
Fixed32Kinds == {"fixed32", "sfixed32", "float"}
Fixed64Kinds == {"fixed64", "sfixed64", "double"}
IntKinds == {"int32", "int64", "uint32", "uint64", "sint32", "sint64", "enum", "fixed32", "sfixed32", "fixed64", "sfixed64"}
KindWidth(kind) == IF kind \in {"int32", "uint32", "sint32", "enum", "fixed32", "sfixed32", "float"} THEN 32 ELSE 64
KindSigned(kind) == kind \in {"int32", "int64", "sint32", "sint64", "enum", "sfixed32", "sfixed64"}
InRange(kind, n) == IF KindSigned(kind) THEN FitsSigned(n, KindWidth(kind)) ELSE FitsUnsigned(n, KindWidth(kind))

(* payload bytes of one scalar (values: ints as [neg,mag], bool as BOOLEAN, floats as IEEE bytes) *)
EncScalarInt(kind, n) ==
  CASE kind \in {"int32", "int64", "enum"} -> EncVarint(TC(n, 64))      \* sign-extended to 64 bits
    [] kind \in {"uint32", "uint64"}       -> EncVarint(n.mag)
    [] kind \in {"sint32", "sint64"}       -> EncVarint(ZigZag(n))
    [] kind \in {"fixed32", "sfixed32"}    -> ToBytes(TC(n, 32), 4)
    [] kind \in {"fixed64", "sfixed64"}    -> ToBytes(TC(n, 64), 8)
EncBool(v) == IF v THEN <<1>> ELSE <<0>>

(* what a reader of the given kind makes of a decoded varint value (raw magnitude) *)
IntOfVarint(kind, raw) ==
  CASE kind = "int32"  -> FromTC(TruncBits(raw, 32), 32)
    [] kind = "enum"   -> FromTC(TruncBits(raw, 32), 32)
    [] kind = "int64"  -> FromTC(TruncBits(raw, 64), 64)
    [] kind = "uint32" -> MkInt(FALSE, TruncBits(raw, 32))
    [] kind = "uint64" -> MkInt(FALSE, TruncBits(raw, 64))
    [] kind = "sint32" -> UnZigZag(TruncBits(raw, 32))
    [] kind = "sint64" -> UnZigZag(TruncBits(raw, 64))
BoolOfVarint(raw) == TruncBits(raw, 64) # <<>>
IntOfFixed(kind, bytes) ==
  CASE kind = "fixed32"  -> MkInt(FALSE, FromBytes(bytes))
    [] kind = "fixed64"  -> MkInt(FALSE, FromBytes(bytes))
    [] kind = "sfixed32" -> FromTC(FromBytes(bytes), 32)
    [] kind = "sfixed64" -> FromTC(FromBytes(bytes), 64)

(* ------------------------- tags ------------------------- *)
WireTypeOf(kind) == IF kind \in VarintKinds THEN 0 ELSE IF kind \in Fixed64Kinds THEN 1
                    ELSE IF kind \in Fixed32Kinds THEN 5 ELSE 2
TagMag(num, wt) == AddMag(MulSmall(FromNat(num), 8), FromNat(wt))
Tag(num, wt) == EncVarint(TagMag(num, wt))
=============================================================================
