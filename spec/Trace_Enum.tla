----------------------------- MODULE Trace_Enum -----------------------------
(* Code -> spec for enum classes: every logged call on a dynamically defined        *)
(* betterproto.Enum (and the observation of the whole class read afterwards) is     *)
(* judged against the definition alone - the registry a definition denotes never   *)
(* depends on the history.                                                          *)
EXTENDS Integers, Sequences, FiniteSets, Json, IOUtils, TLC, TLCExt

Shard == JsonDeserialize(IOEnv.TRACE_FILE)
Runs == Shard.events
VARIABLES r, i, bad
vars == <<r, i, bad>>

Nums(def) == { def[j].num : j \in 1..Len(def) }
NamesOf(def) == { def[j].name : j \in 1..Len(def) }
NumOfName(def, s) == def[CHOOSE j \in 1..Len(def) : def[j].name = s].num
First(def, n) == def[CHOOSE j \in 1..Len(def) : def[j].num = n /\ \A k \in 1..(j - 1) : def[k].num # n].name

\* the class as observed after the call: for every declared name its member's name / value / identity with the
\* by-number lookup; every probe number not in the definition must still be rejected by E(n)
ObsClause(def, o) ==
  IF o.err # "" THEN "observation_raises_" \o o.err
  ELSE IF \E j \in 1..Len(o.members) : LET m == o.members[j] IN
            m.value # NumOfName(def, m.decl) \/ m.name # First(def, NumOfName(def, m.decl)) \/ ~m.same_as_bynumber \/ ~m.same_as_attr
       THEN "member_not_canonical"
  ELSE IF Len(o.members) # Len(def) THEN "member_missing"
  ELSE IF \E j \in 1..Len(o.undefined) : o.undefined[j].accepted THEN "undefined_number_became_a_member"
  ELSE "ok"

OpClause(def, e) ==
  CASE e.op \in {"bynum", "try"} ->
         (IF e.n \in Nums(def)
          THEN (IF e.res # "ok" THEN "lookup_raises_" \o e.res
                ELSE IF e.name # First(def, e.n) \/ e.value # e.n THEN "lookup_wrong_member"
                ELSE IF ~e.ident THEN "lookup_not_the_canonical_object" ELSE "ok")
          ELSE IF e.op = "bynum" THEN (IF e.res = "ok" THEN "undefined_number_accepted_by_call" ELSE "ok")
          ELSE (IF e.res # "ok" THEN "try_value_rejects_undefined_number_" \o e.res
                ELSE IF e.value # e.n \/ ~e.eqint THEN "undefined_number_not_equal_to_its_integer"
                ELSE IF e.name # "None" THEN "undefined_number_has_a_name" ELSE "ok"))
    [] e.op \in {"byname", "fromstring"} ->
         (IF e.s \in NamesOf(def)
          THEN (IF e.res # "ok" THEN "name_lookup_raises_" \o e.res
                ELSE IF e.value # NumOfName(def, e.s) \/ e.name # First(def, NumOfName(def, e.s)) THEN "name_lookup_wrong_member"
                ELSE IF ~e.ident THEN "name_lookup_not_the_canonical_object" ELSE "ok")
          ELSE (IF e.res = "ok" THEN "unknown_name_accepted" ELSE "ok"))
    [] e.op \in {"copy", "deepcopy"} -> (IF e.res # "ok" THEN "copy_raises_" \o e.res ELSE IF ~e.ident THEN "copy_is_another_object" ELSE "ok")
    [] e.op = "pickle" -> (IF e.res # "ok" THEN "pickle_raises_" \o e.res
                           ELSE IF e.value # e.n THEN "pickle_changes_number"
                           ELSE IF e.n \in Nums(def) /\ e.name # First(def, e.n) THEN "pickle_changes_name"
                           ELSE IF e.n \notin Nums(def) /\ e.name # "None" THEN "pickle_changes_name" ELSE "ok")
    [] e.op \in {"setattr_class", "delattr_class", "setattr_member", "delattr_member", "setattr_new", "setattr_value"} ->
         (IF e.res = "ok" THEN "mutation_accepted_" \o e.op ELSE "ok")
    [] e.op \in {"setattr_special", "delattr_special"} -> (IF e.res = "ok" THEN "mutation_accepted_" \o e.op \o "_" \o e.s ELSE "ok")
    [] OTHER -> "ok"
Clause(def, e) == LET c == OpClause(def, e) IN IF c # "ok" THEN c ELSE ObsClause(def, e.obs)

Init == r = 1 /\ i = 1 /\ bad = ""
Advance == /\ r <= Len(Runs) /\ i <= Len(Runs[r].log) /\ bad = ""
           /\ bad' = (LET c == Clause(Runs[r].def, Runs[r].log[i]) IN IF c = "ok" THEN "" ELSE c)
           /\ i' = i + 1 /\ r' = r
Finish == /\ r <= Len(Runs) /\ (i > Len(Runs[r].log) \/ bad # "")
          /\ PrintT(<<"V", Runs[r].id, IF bad = "" THEN "ok" ELSE bad, "", i - 1>>)
          /\ r' = r + 1 /\ i' = 1 /\ bad' = ""
Next == Advance \/ Finish
TraceSpec == Init /\ [][Next]_vars
=============================================================================
