---------------------------- MODULE Trace_Options ----------------------------
(* C18: one event = one program generated under a non-default option combination,  *)
(* with the behaviour (bytes, JSON, oneof selection of a deterministic instance of  *)
(* every message class) of that package and of the default-configuration package.   *)
EXTENDS Naturals, Sequences, FiniteSets, Json, IOUtils, TLC, TLCExt

Shard == JsonDeserialize(IOEnv.TRACE_FILE)
Events == Shard.events
VARIABLE i
SeqSet(s) == { s[j] : j \in 1..Len(s) }
Clause(e) ==
  IF e.default_import # "ok" THEN <<"ok", "">>                  \* the default configuration itself is C03's subject
  ELSE IF e.import # "ok" THEN <<"variant_does_not_import", e.import>>
  ELSE IF \E x \in SeqSet(e.errors) : x.key \notin { y.key : y \in SeqSet(e.default_errors) } THEN <<"variant_class_unusable", e.errors>>
  ELSE LET v == SeqSet(e.classes)  d == SeqSet(e.default_classes) IN
    \* (a class whose deterministic instance cannot be built under the default configuration either is not comparable)
    IF { c.key : c \in v } # { c.key : c \in d } THEN <<"variant_defines_other_classes", "">>
    ELSE IF \E c \in v : \E x \in d : x.key = c.key /\ x.bytes # c.bytes THEN <<"variant_encodes_other_bytes", { c.key : c \in { y \in v : \E x \in d : x.key = y.key /\ x.bytes # y.bytes } }>>
    ELSE IF \E c \in v : \E x \in d : x.key = c.key /\ x.json # c.json THEN <<"variant_prints_other_json", "">>
    ELSE IF \E c \in v : \E x \in d : x.key = c.key /\ x.which # c.which THEN <<"variant_selects_other_oneof_member", "">>
    \* ... and after a wire round trip followed by the assignment of another member of each oneof
    ELSE IF \E c \in v : \E x \in d : x.key = c.key /\ (x.bytes2 # c.bytes2 \/ x.json2 # c.json2 \/ x.which2 # c.which2)
         THEN <<"variant_behaves_differently_after_parse_and_assignment", { c.key : c \in { y \in v : \E x \in d : x.key = y.key /\ (x.bytes2 # y.bytes2 \/ x.json2 # y.json2 \/ x.which2 # y.which2) } }>>
    ELSE <<"ok", "">>
KFO(e, clause) ==
  IF clause = "variant_does_not_import" /\ e.pydantic /\ (\E n \in SeqSet(e.field_names) : n \in SeqSet(Shard.hdr.builtin_type_names))
  THEN "KF_C18_BuiltinNamedFieldUnderPydantic"
  \* the same defect surfacing at first use instead of at import (pydantic builds the schema lazily): every class that is
  \* unusable only under this variant fails on a field named like a builtin type
  ELSE IF clause = "variant_class_unusable" /\ e.pydantic
          /\ \A x \in SeqSet(e.errors) : \/ x.key \in { y.key : y \in SeqSet(e.default_errors) }
                                          \/ x.field \in SeqSet(Shard.hdr.builtin_type_names)
                                          \* (list[...] / dict[...] evaluated on the field's placeholder default)
                                          \/ (x.placeholder /\ \E n \in SeqSet(e.field_names) : n \in SeqSet(Shard.hdr.builtin_type_names))
  THEN "KF_C18_BuiltinNamedFieldUnderPydantic" ELSE ""
Init == i = 1
Next == /\ i <= Len(Events) /\ i' = i + 1
        /\ LET c == Clause(Events[i]) IN PrintT(<<"V", Events[i].id, c[1], KFO(Events[i], c[1]), c[2]>>)
TraceSpec == Init /\ [][Next]_i
=============================================================================
