-------------------------------- MODULE Wire --------------------------------
(* Field framing of the protobuf wire format: a message is a sequence of          *)
(* (tag, payload) records.  ParseFields is the ideal reader: total, rejecting     *)
(* truncated tags and payloads, field number 0, wire types 6/7 and unmatched      *)
(* group markers; a (proto2) group is skipped to its end marker as one unit.      *)
EXTENDS Varint

Slice(b, s, e) == IF e < s THEN <<>> ELSE SubSeq(b, s, e)
Err(e, out) == [ok |-> FALSE, err |-> e, fields |-> out]

TagNumMag(t) == Half(Half(Half(t)))
TagWt(t) == IF t = <<>> THEN 0 ELSE t[1] % 8

\* end position (index of the last byte) of the group opened by field `num` whose body starts at p; 0 if malformed
RECURSIVE GroupEnd(_, _, _, _)
GroupEnd(b, p, num, depth) ==
  IF p > Len(b) \/ depth > 50 THEN 0
  ELSE LET t == DecVarint(b, p) IN
    IF ~t.ok \/ TagNumMag(t.val) = <<>> \/ BitLen(TagNumMag(t.val)) > 29 THEN 0
    ELSE LET wt == TagWt(t.val)  n == ToNat(TagNumMag(t.val)) IN
      CASE wt = 0 -> (LET v == DecVarint(b, t.next) IN IF v.ok THEN GroupEnd(b, v.next, num, depth) ELSE 0)
        [] wt = 1 -> IF t.next + 7 <= Len(b) THEN GroupEnd(b, t.next + 8, num, depth) ELSE 0
        [] wt = 5 -> IF t.next + 3 <= Len(b) THEN GroupEnd(b, t.next + 4, num, depth) ELSE 0
        [] wt = 2 -> (LET l == DecVarint(b, t.next) IN
                      IF l.ok /\ FitsNat(l.val) /\ (l.next + ToNat(l.val)) - 1 <= Len(b)
                      THEN GroupEnd(b, l.next + ToNat(l.val), num, depth) ELSE 0)
        [] wt = 3 -> (LET e == GroupEnd(b, t.next, n, depth + 1) IN IF e = 0 THEN 0 ELSE GroupEnd(b, e + 1, num, depth))
        [] wt = 4 -> IF n = num THEN t.next - 1 ELSE 0
        [] OTHER -> 0

\* field record: num, wt, v = raw varint magnitude (wt 0), payload span ps..pe (wt 1, 2, 5), raw span rs..re
\* one field at position p (p <= Len(b)): [ok, err, fld, next]
NoField == [num |-> 0, wt |-> 0, v |-> <<>>, ps |-> 0, pe |-> 0, rs |-> 0, re |-> 0]
F1Err(e) == [ok |-> FALSE, err |-> e, fld |-> NoField, next |-> 0]
F1Ok(f, nx) == [ok |-> TRUE, err |-> "", fld |-> f, next |-> nx]
Field1(b, p) ==
  LET t == DecVarint(b, p) IN
    IF ~t.ok THEN F1Err("truncated_tag")
    ELSE IF TagNumMag(t.val) = <<>> THEN F1Err("field_zero")
    ELSE IF BitLen(TagNumMag(t.val)) > 29 THEN F1Err("field_number_range")
    ELSE LET wt == TagWt(t.val)  num == ToNat(TagNumMag(t.val)) IN
      CASE wt = 0 -> (LET v == DecVarint(b, t.next) IN
                      IF ~v.ok THEN F1Err("truncated_varint")
                      ELSE F1Ok([num |-> num, wt |-> 0, v |-> v.val, ps |-> 0, pe |-> 0, rs |-> p, re |-> v.next - 1], v.next))
        [] wt = 1 -> IF t.next + 7 > Len(b) THEN F1Err("truncated_fixed64")
                     ELSE F1Ok([num |-> num, wt |-> 1, v |-> <<>>, ps |-> t.next, pe |-> t.next + 7, rs |-> p, re |-> t.next + 7], t.next + 8)
        [] wt = 5 -> IF t.next + 3 > Len(b) THEN F1Err("truncated_fixed32")
                     ELSE F1Ok([num |-> num, wt |-> 5, v |-> <<>>, ps |-> t.next, pe |-> t.next + 3, rs |-> p, re |-> t.next + 3], t.next + 4)
        [] wt = 2 -> (LET l == DecVarint(b, t.next) IN
                      IF ~l.ok THEN F1Err("truncated_length")
                      ELSE IF ~FitsNat(l.val) \/ (l.next + ToNat(l.val)) - 1 > Len(b) THEN F1Err("truncated_payload")
                      ELSE LET n == ToNat(l.val) IN
                           F1Ok([num |-> num, wt |-> 2, v |-> <<>>, ps |-> l.next, pe |-> (l.next + n) - 1, rs |-> p, re |-> (l.next + n) - 1], l.next + n))
        [] wt = 3 -> (LET e == GroupEnd(b, t.next, num, 0) IN
                      IF e = 0 THEN F1Err("bad_group")
                      ELSE F1Ok([num |-> num, wt |-> 3, v |-> <<>>, ps |-> t.next, pe |-> e, rs |-> p, re |-> e], e + 1))
        [] wt = 4 -> F1Err("unmatched_end_group")
        [] OTHER -> F1Err("bad_wiretype")
RECURSIVE PF(_, _, _)
PF(b, p, out) ==
  IF p > Len(b) THEN [ok |-> TRUE, err |-> "", fields |-> out]
  ELSE LET f == Field1(b, p) IN
       IF ~f.ok THEN Err(f.err, out) ELSE PF(b, f.next, Append(out, f.fld))
ParseFields(b) == PF(b, 1, <<>>)

(* encoding side: one field occurrence *)
LenPrefix(pay) == EncVarint(FromNat(Len(pay))) \o pay
FieldVarint(num, raw) == Tag(num, 0) \o EncVarint(raw)
FieldLen(num, pay) == Tag(num, 2) \o LenPrefix(pay)
FieldFixed(num, wt, bytes) == Tag(num, wt) \o bytes
=============================================================================
