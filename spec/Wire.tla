-------------------------------- MODULE Wire --------------------------------
(* Field framing of the protobuf wire format: a message is a sequence of          *)
(* (tag, payload) records.  ParseFields is the ideal reader: total, rejecting     *)
(* truncated tags and payloads, field number 0, wire types 6/7 and unmatched      *)
(* group markers; a (proto2) group is skipped to its end marker as one unit.      *)
EXTENDS Varint

Slice(b, s, e) == IF e < s THEN <<>> ELSE SubSeq(b, s, e)
Err(e, out) == [ok |-> FALSE, err |-> e, fields |-> out]

TagNumMag(t) == Half(Half(Half(t)))
TagWt(t) == IF t = <<>> THEN 0 ELSE t[1] % 8

\* end position (index of the last byte) of the group opened by field `num` whose body starts at p; 0 if malformed
RECURSIVE GroupEnd(_, _, _, _)
GroupEnd(b, p, num, depth) ==
  IF p > Len(b) \/ depth > 50 THEN 0
  ELSE LET t == DecVarint(b, p) IN
    IF ~t.ok \/ TagNumMag(t.val) = <<>> \/ BitLen(TagNumMag(t.val)) > 29 THEN 0
    ELSE LET wt == TagWt(t.val)  n == ToNat(TagNumMag(t.val)) IN
      CASE wt = 0 -> (LET v == DecVarint(b, t.next) IN IF v.ok THEN GroupEnd(b, v.next, num, depth) ELSE 0)
        [] wt = 1 -> IF t.next + 7 <= Len(b) THEN GroupEnd(b, t.next + 8, num, depth) ELSE 0
        [] wt = 5 -> IF t.next + 3 <= Len(b) THEN GroupEnd(b, t.next + 4, num, depth) ELSE 0
        [] wt = 2 -> (LET l == DecVarint(b, t.next) IN
                      IF l.ok /\ FitsNat(l.val) /\ (l.next + ToNat(l.val)) - 1 <= Len(b)
                      THEN GroupEnd(b, l.next + ToNat(l.val), num, depth) ELSE 0)
        [] wt = 3 -> (LET e == GroupEnd(b, t.next, n, depth + 1) IN IF e = 0 THEN 0 ELSE GroupEnd(b, e + 1, num, depth))
        [] wt = 4 -> IF n = num THEN t.next - 1 ELSE 0
        [] OTHER -> 0

\* field record: num, wt, v = raw varint magnitude (wt 0), payload span ps..pe (wt 1, 2, 5), raw span rs..re
RECURSIVE PF(_, _, _)
PF(b, p, out) ==
  IF p > Len(b) THEN [ok |-> TRUE, err |-> "", fields |-> out]
  ELSE LET t == DecVarint(b, p) IN
    IF ~t.ok THEN Err("truncated_tag", out)
    ELSE IF TagNumMag(t.val) = <<>> THEN Err("field_zero", out)
    ELSE IF BitLen(TagNumMag(t.val)) > 29 THEN Err("field_number_range", out)
    ELSE LET wt == TagWt(t.val)  num == ToNat(TagNumMag(t.val)) IN
      CASE wt = 0 -> (LET v == DecVarint(b, t.next) IN
                      IF ~v.ok THEN Err("truncated_varint", out)
                      ELSE PF(b, v.next, Append(out, [num |-> num, wt |-> 0, v |-> v.val, ps |-> 0, pe |-> 0, rs |-> p, re |-> v.next - 1])))
        [] wt = 1 -> IF t.next + 7 > Len(b) THEN Err("truncated_fixed64", out)
                     ELSE PF(b, t.next + 8, Append(out, [num |-> num, wt |-> 1, v |-> <<>>, ps |-> t.next, pe |-> t.next + 7, rs |-> p, re |-> t.next + 7]))
        [] wt = 5 -> IF t.next + 3 > Len(b) THEN Err("truncated_fixed32", out)
                     ELSE PF(b, t.next + 4, Append(out, [num |-> num, wt |-> 5, v |-> <<>>, ps |-> t.next, pe |-> t.next + 3, rs |-> p, re |-> t.next + 3]))
        [] wt = 2 -> (LET l == DecVarint(b, t.next) IN
                      IF ~l.ok THEN Err("truncated_length", out)
                      ELSE IF ~FitsNat(l.val) \/ (l.next + ToNat(l.val)) - 1 > Len(b) THEN Err("truncated_payload", out)
                      ELSE LET n == ToNat(l.val) IN
                           PF(b, l.next + n, Append(out, [num |-> num, wt |-> 2, v |-> <<>>, ps |-> l.next, pe |-> (l.next + n) - 1, rs |-> p, re |-> (l.next + n) - 1])))
        [] wt = 3 -> (LET e == GroupEnd(b, t.next, num, 0) IN
                      IF e = 0 THEN Err("bad_group", out)
                      ELSE PF(b, e + 1, Append(out, [num |-> num, wt |-> 3, v |-> <<>>, ps |-> t.next, pe |-> e, rs |-> p, re |-> e])))
        [] wt = 4 -> Err("unmatched_end_group", out)
        [] OTHER -> Err("bad_wiretype", out)
ParseFields(b) == PF(b, 1, <<>>)

(* encoding side: one field occurrence *)
LenPrefix(pay) == EncVarint(FromNat(Len(pay))) \o pay
FieldVarint(num, raw) == Tag(num, 0) \o EncVarint(raw)
FieldLen(num, pay) == Tag(num, 2) \o LenPrefix(pay)
FieldFixed(num, wt, bytes) == Tag(num, wt) \o bytes
=============================================================================
