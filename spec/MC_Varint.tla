----------------------------- MODULE MC_Varint -----------------------------
(* Small-scope theorems of the scalar layer, checked by TLC over a finite digit   *)
(* family: every magnitude of up to MaxLen base-128 digits over DigitAlpha, both  *)
(* signs.  MaxLen = 10 covers the whole 64-bit (70-bit raw) domain structurally.  *)
EXTENDS Varint, TLC, FiniteSets

CONSTANTS DigitAlpha, MaxLen, PadMax

VARIABLES mag, neg, pad
vars == <<mag, neg, pad>>
n == MkInt(neg, mag)
Init == mag = <<>> /\ neg = FALSE /\ pad = 0
\* the value under test grows digit by digit (so TLC's workers share the enumeration);
\* every intermediate value is itself checked
Grow(d) == Len(mag) < MaxLen /\ pad = 0 /\ mag' = Append(mag, d) /\ UNCHANGED <<neg, pad>>
Flip == ~neg /\ pad = 0 /\ neg' = TRUE /\ UNCHANGED <<mag, pad>>
PadMore == pad < PadMax /\ pad' = pad + 1 /\ UNCHANGED <<mag, neg>>
Next == (\E d \in DigitAlpha : Grow(d)) \/ Flip \/ PadMore
Spec == Init /\ [][Next]_vars

Enc == EncVarintInt(n)
D == DecVarint(Enc, 1)

T_WellFormed == IsInt(n)
T_RoundTrip == EncodableInt(n) =>
                 /\ D.ok /\ D.next = Len(Enc) + 1
                 /\ D.val = TC(n, 64)
                 /\ (IF n.neg \/ BitLen(n.mag) <= 63 THEN FromTC(D.val, 64) = n ELSE MkInt(FALSE, D.val) = n)
T_Size == EncodableInt(n) => SizeVarintInt(n) = Len(Enc) /\ Len(Enc) <= 10
T_Canonical == EncodableInt(n) =>
                 /\ \A i \in 1..(Len(Enc) - 1) : Enc[i] >= 128
                 /\ Enc[Len(Enc)] < 128
                 /\ (Len(Enc) > 1 => Enc[Len(Enc)] # 0)
T_NegTen == (EncodableInt(n) /\ n.neg) => Len(Enc) = 10
T_ZigZag == /\ UnZigZag(ZigZag(n)) = n
            /\ (FitsSigned(n, 64) => BitLen(ZigZag(n)) <= 64)
            /\ (FitsSigned(n, 32) => BitLen(ZigZag(n)) <= 32)
T_Kinds == \A kind \in IntKinds : InRange(kind, n) =>
             LET e == EncScalarInt(kind, n) IN
             IF WireTypeOf(kind) = 0
             THEN LET d == DecVarint(e, 1) IN d.ok /\ d.next = Len(e) + 1 /\ IntOfVarint(kind, d.val) = n
             ELSE Len(e) = KindWidth(kind) \div 8 /\ IntOfFixed(kind, e) = n
T_Pad == (~n.neg /\ Len(n.mag) + pad <= 10 /\ (n.mag = <<>> => pad <= 9)) =>
           LET e == PadVarint(n.mag, pad)  d == DecVarint(e, 1) IN
           d.ok /\ d.val = n.mag /\ d.next = Len(e) + 1
T_TooLong == (~n.neg /\ Len(n.mag) + pad > 10) =>
           LET d == DecVarint(PadVarint(n.mag, pad), 1) IN ~d.ok /\ d.err = "toolong"
T_Eof == EncodableInt(n) => \A k \in 0..(Len(Enc) - 1) :
           LET d == DecVarint(SubSeq(Enc, 1, k), 1) IN ~d.ok /\ d.err = "eof"
T_Bytes == (~n.neg /\ BitLen(n.mag) <= 64) =>
           /\ FromBytes(ToBytes(n.mag, 8)) = n.mag
           /\ (BitLen(n.mag) <= 32 => FromBytes(ToBytes(n.mag, 4)) = n.mag)
           /\ \A j \in 1..8 : ToBytes(n.mag, 8)[j] \in 0..255
T_TC == /\ (FitsSigned(n, 64) => FromTC(TC(n, 64), 64) = n /\ BitLen(TC(n, 64)) <= 64)
        /\ (FitsSigned(n, 32) => FromTC(TC(n, 32), 32) = n /\ BitLen(TC(n, 32)) <= 32)
        /\ (FitsSigned(n, 32) => TruncBits(TC(n, 64), 32) = TC(n, 32))
=============================================================================
