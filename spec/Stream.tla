------------------------------- MODULE Stream -------------------------------
(***************************************************************************)
(* Delimited streams (S1): dump(..., SIZE_DELIMITED) / load(...,           *)
(* SIZE_DELIMITED) as a state machine over a byte stream with a fault      *)
(* action Cut.  LoadDelim models betterproto's load loop: size varint,     *)
(* then one field at a time while fewer than `size` bytes were consumed    *)
(* (known and unknown fields both counted), overrun / short-read / framing *)
(* errors raise.  Schema and message pool are data (POOL_FILE).            *)
(***************************************************************************)
EXTENDS Codec, Json, IOUtils, TLC, TLCExt, FiniteSets

CONSTANTS MaxMsgs, Export

Pool == JsonDeserialize(IOEnv.POOL_FILE)
Idx == MkIndex(Pool.schema.types)
Msgs == Pool.msgs                 \* [ty, val]
Readers == Pool.readers           \* writer type -> sequence of reader types (same, older)

Raise(why, pos) == [res |-> "raise", why |-> why, val |-> <<>>, unk |-> <<>>, next |-> pos]
RECURSIVE LoopFields(_, _, _, _, _, _)
LoopFields(ty, b, p, size, read, acc) ==
  IF read = size THEN LET st == Apply(Idx, ty, [ok |-> TRUE, err |-> "", val |-> Idx[ty].fresh, unk |-> <<>>, merged |-> FALSE], acc, b) IN
                      IF st.ok THEN [res |-> "ok", why |-> "", val |-> st.val, unk |-> st.unk, next |-> p - 1]
                      ELSE Raise(st.err, p - 1)
  ELSE IF p > Len(b) THEN Raise("short_read", p - 1)
  ELSE LET f == Field1(b, p) IN
       IF ~f.ok THEN Raise(f.err, p - 1)
       ELSE LET read2 == read + (f.next - p) IN
            IF read2 > size THEN Raise("overrun", f.next - 1)
            ELSE LoopFields(ty, b, f.next, size, read2, Append(acc, f.fld))
\* pos is a 0-based offset (like stream.tell()); returns [res, val, next offset]
LoadDelim(ty, b, pos) ==
  LET sz == DecVarint(b, pos + 1) IN
  IF ~sz.ok THEN Raise(IF pos >= Len(b) THEN "eof" ELSE "truncated_size", pos)
  ELSE IF ~FitsNat(sz.val) THEN Raise("size_too_big", pos)
  ELSE LoopFields(ty, b, sz.next, ToNat(sz.val), 0, <<>>)

Frame(mi) == LET p == SpecEncode(Idx, Msgs[mi].ty, Msgs[mi].val) IN EncVarint(FromNat(Len(p))) \o p

VARIABLES written, stream, cut, rpos, nread, results, rdr, dead
vars == <<written, stream, cut, rpos, nread, results, rdr, dead>>

Init == written = <<>> /\ stream = <<>> /\ cut = -1 /\ rpos = 0 /\ nread = 0 /\ results = <<>> /\ rdr = 1 /\ dead = FALSE

Write(mi) == /\ cut = -1 /\ nread = 0 /\ Len(written) < MaxMsgs
             /\ written' = Append(written, mi)
             /\ stream' = stream \o Frame(mi)
             /\ UNCHANGED <<cut, rpos, nread, results, rdr, dead>>
\* the fault: the stream is cut after k bytes (k = Len(stream) means no cut); the reader variant is chosen here
Cut(k, r) == /\ cut = -1 /\ written # <<>> /\ k \in 0..Len(stream)
             /\ cut' = k /\ rdr' = r
             /\ UNCHANGED <<written, stream, rpos, nread, results, dead>>
ReaderTy(mi) == LET rs == Readers[Msgs[mi].ty] IN rs[IF rdr <= Len(rs) THEN rdr ELSE 1]
Read == /\ cut >= 0 /\ ~dead /\ nread <= Len(written)
        /\ LET ty == IF nread < Len(written) THEN ReaderTy(written[nread + 1]) ELSE ReaderTy(written[Len(written)])
               r == LoadDelim(ty, SubSeq(stream, 1, cut), rpos) IN
           /\ results' = Append(results, [res |-> r.res, ty |-> ty, val |-> r.val, next |-> r.next])
           /\ rpos' = r.next
           /\ dead' = (r.res = "raise")
           /\ nread' = nread + 1
        /\ UNCHANGED <<written, stream, cut, rdr>>
Finished == cut >= 0 /\ (dead \/ nread > Len(written))
Next == (\E mi \in 1..Len(Msgs) : Write(mi)) \/ (\E k \in 0..Len(stream), r \in 1..2 : Cut(k, r)) \/ Read
Spec == Init /\ [][Next]_vars

(* ---- properties ---- *)
RECURSIVE FrameEnd(_, _)
FrameEnd(ws, k) == IF k = 0 THEN 0 ELSE FrameEnd(ws, k - 1) + Len(Frame(ws[k]))
Expected(k, ty) == SpecDecode(Idx, ty, SpecEncode(Idx, Msgs[written[k]].ty, Msgs[written[k]].val))
\* a frame that lies entirely before the cut is read back as the message written (projected on the reader's schema),
\* consuming exactly its own bytes
ReadsBackSameSequence ==
  \A k \in 1..Len(results) :
     (k <= Len(written) /\ FrameEnd(written, k) <= cut) =>
        /\ results[k].res = "ok"
        /\ results[k].next = FrameEnd(written, k)
        /\ NormMsg(results[k].val) = NormMsg(Expected(k, results[k].ty).val)
\* a frame the cut goes through is never returned shortened: the load raises
CutNeverShortens ==
  \A k \in 1..Len(results) :
     (k <= Len(written) /\ FrameEnd(written, k) > cut) => results[k].res = "raise"
\* reading past the last message does not invent one
NoPhantomMessage == \A k \in 1..Len(results) : k > Len(written) => results[k].res = "raise"
\* export of finished scenarios for the replay into the real code
ExportDone == Finished /\ Export => PrintT(<<"CASE", written, cut, rdr>>)
=============================================================================
