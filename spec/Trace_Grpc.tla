------------------------------ MODULE Trace_Grpc ------------------------------
(* Code -> spec: calls made through generated stubs to generated server bases over  *)
(* an in-process grpclib channel, judged against Grpc.tla.                           *)
EXTENDS Grpc, Json, IOUtils, TLCExt

Shard == JsonDeserialize(IOEnv.TRACE_FILE)
Events == Shard.events
VARIABLE i
Clause(e) ==
  LET c == e.call  r == e.rec  st == Streams(c.card)  want == ExpectedStatus(c) IN
  IF e.imp # "ok" THEN "generated_package_does_not_import"
  ELSE IF r.res = "no_such_route" THEN "no_handler_registered_for_route"
  ELSE IF r.res = "hang" THEN "call_does_not_terminate"
  \* a call made with timeout=0 may fail as it likes (deadline exceeded), but if its handler ran, the handler saw no stub-level allowance
  ELSE IF c.kw.tzero THEN (IF r.ran # <<>> /\ r.deadline # 0 THEN "timeout_deadline_precedence" ELSE "ok")
  ELSE IF r.res = "exception" THEN "call_raises_" \o r.exc
  ELSE IF r.hit # <<c.route>> THEN "request_reached_another_route"
  ELSE IF \E j \in 1..Len(r.ran) : r.ran[j] # c.pyname THEN "another_handler_ran"
  ELSE IF c.mode = "default" THEN
       (IF r.ran # <<>> THEN "handler_ran_for_unoverridden_method"
        ELSE IF r.res # "grpc_error" \/ r.status # "UNIMPLEMENTED" THEN "unoverridden_method_not_UNIMPLEMENTED"
        ELSE IF r.got # <<>> THEN "response_from_unoverridden_method" ELSE "ok")
  ELSE IF Len(r.ran) # 1 THEN "handler_not_invoked_exactly_once"
  ELSE IF r.seen_reqs # r.sent THEN "handler_saw_other_requests"
  ELSE IF r.meta # EffMetadata(c) THEN "metadata_precedence"
  ELSE IF r.deadline # (IF EffDeadline(c) = None THEN -1 ELSE EffDeadline(c)) THEN "timeout_deadline_precedence"
  ELSE IF c.mode = "raise" THEN
       (IF r.res # "grpc_error" \/ r.status # want THEN "handler_status_not_propagated"
        ELSE IF st.ss /\ ~(Len(r.got) <= Len(r.sent_resps) /\ r.got = SubSeq(r.sent_resps, 1, Len(r.got))) THEN "responses_before_status_differ"
        ELSE IF ~st.ss /\ r.got # <<>> THEN "response_despite_status" ELSE "ok")
  ELSE IF r.res # "ok" THEN "call_failed_" \o r.status
  ELSE IF r.got # r.sent_resps THEN "caller_received_other_responses"
  ELSE IF Len(r.got) # (IF st.ss THEN c.nresp ELSE 1) THEN "wrong_number_of_responses"
  ELSE "ok"
TInit == i = 1
TNext == /\ i <= Len(Events) /\ i' = i + 1
         /\ PrintT(<<"V", Events[i].id, Clause(Events[i]), "", "">>)
         /\ UNCHANGED vars
TraceSpec == TInit /\ Init /\ [][TNext]_<<i, vars>>
=============================================================================
