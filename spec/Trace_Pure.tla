----------------------------- MODULE Trace_Pure -----------------------------
(* C14 for message classes outside the schema language of AbsMessage (the bundled well-known types with hand-written   *)
(* conversions: Struct / Value / ListValue ...): one event = one object, one observer call; the encoding taken before   *)
(* and after the call, equality with an untouched twin decoded from the same bytes, and for copies equality / bytes.    *)
EXTENDS Naturals, Sequences, Json, IOUtils, TLC, TLCExt
Shard == JsonDeserialize(IOEnv.TRACE_FILE)
Events == Shard.events
VARIABLE i
Tolerated == {"to_dict", "to_json", "to_pydict", "repr"}          \* whether these succeed on every value is C04/C05's subject
Clause(e) ==
  IF e.setup # "ok" THEN <<"cannot_build_" \o e.setup, "">>
  ELSE IF e.res # "ok" /\ e.observer \notin Tolerated THEN <<"observer_" \o e.observer \o "_raises_" \o e.res, "">>
  ELSE IF e.after_res # "ok" THEN <<"cannot_be_encoded_after_" \o e.observer \o "_" \o e.after_res, "">>
  ELSE IF e.after # e.before THEN <<"encoding_changed_by_" \o e.observer, "">>
  ELSE IF ~e.eq_twin THEN <<"no_longer_equal_to_an_untouched_twin_after_" \o e.observer, "">>
  ELSE IF e.observer \in {"copy", "deepcopy", "pickle"} /\ (~e.copy_eq \/ e.copy_bytes # e.before)
       THEN <<e.observer \o "_differs_from_original", "">>
  ELSE <<"ok", "">>
Init == i = 1
Next == /\ i <= Len(Events) /\ i' = i + 1
        /\ LET c == Clause(Events[i]) IN PrintT(<<"V", Events[i].id, c[1], "", c[2]>>)
TraceSpec == Init /\ [][Next]_i
=============================================================================
