------------------------------ MODULE Trace_Msg ------------------------------
(* Code -> spec: histories of public operations on real Message objects, each with *)
(* the public observation vector read afterwards, are stepped through AbsMessage.   *)
(* One verdict per history: <<"V", id, clause, kf, detail>>.                        *)
EXTENDS AbsMessage, KnownFindings, Json, IOUtils, TLC, TLCExt

Shard == JsonDeserialize(IOEnv.TRACE_FILE)
Runs == Shard.events
Idx == MkIndex(Shard.hdr.schema.types)
JudgeLen == "judge_len" \in DOMAIN Shard.hdr /\ Shard.hdr.judge_len
VARIABLES r, i, st
vars == <<r, i, st>>

Init == r = 1 /\ i = 1 /\ st = IF Len(Runs) >= 1 THEN InitAbs(Idx, Runs[1].ty) ELSE [val |-> <<>>, unk |-> <<>>, bad |-> "", detail |-> ""]
\* what the library does today, noted when it changes (a note, never a verdict): a document that from_dict rejects has been
\* converted completely before the first field is assigned, so the receiving object is as it was
RejectedDocLeftATrace(e) ==
  e.op = "fromdict_bad" /\ e.obs.err = "" /\ ~SameVal(NormMsg(e.obs.val), st.val)
Advance == /\ r <= Len(Runs) /\ i <= Len(Runs[r].log) /\ st.bad = ""
           /\ LET e == Runs[r].log[i] IN IF RejectedDocLeftATrace(e) THEN PrintT(<<"D", Runs[r].id, "a rejected from_dict changed the receiving object">>) ELSE TRUE
           /\ st' = Step(Idx, Runs[r].ty, st, Runs[r].log[i], JudgeLen)
           /\ i' = i + 1 /\ r' = r
Finish == /\ r <= Len(Runs) /\ (i > Len(Runs[r].log) \/ st.bad # "")
          /\ PrintT(<<"V", Runs[r].id, IF st.bad = "" THEN "ok" ELSE st.bad,
                     IF st.bad = "" THEN "" ELSE KF(Runs[r], st.bad), <<i - 1, st.detail>> >>)
          /\ r' = r + 1 /\ i' = 1
          /\ st' = IF r + 1 <= Len(Runs) THEN InitAbs(Idx, Runs[r + 1].ty) ELSE st
Next == Advance \/ Finish
TraceSpec == Init /\ [][Next]_vars
=============================================================================
