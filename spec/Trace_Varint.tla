---------------------------- MODULE Trace_Varint ----------------------------
(* Code -> spec: events recorded from betterproto's scalar primitives (and from   *)
(* the reference implementation for single-field messages) are judged against    *)
(* Varint.tla.  One verdict line per event: <<"V", id, clause, kf, detail>>.      *)
EXTENDS Varint, Json, IOUtils, TLC, TLCExt

Shard == JsonDeserialize(IOEnv.TRACE_FILE)
Events == Shard.events
VARIABLE i

IntV(v) == MkInt(v.neg, v.mag)

EncClause(e) ==
  LET n == IntV(e.n) IN
  IF ~EncodableInt(n)
  THEN (IF n.neg THEN (IF e.res # "exc" THEN "enc_accepts_below_min64"
                        ELSE IF e.sizeres # "exc" THEN "size_accepts_below_min64" ELSE "ok")
        ELSE "ok")                                    \* >= 2^64: outside the statement's domain
  ELSE IF e.res # "ok" THEN "enc_raises"
  ELSE IF e.out # EncVarintInt(n) THEN "enc_bytes"
  ELSE IF e.dump # e.out THEN "dump_differs"
  ELSE IF e.sizeres # "ok" \/ e.size # Len(EncVarintInt(n)) THEN "size"
  ELSE "ok"

DecClause(e) ==
  LET d == DecVarint(e.b, e.pos + 1) IN
  IF ~d.ok THEN (IF e.res = "ok" THEN "dec_accepts_" \o d.err ELSE "ok")
  ELSE IF e.res # "ok" THEN "dec_raises"
  ELSE IF e.next # d.next - 1 THEN "dec_consumed"
  ELSE IF e.val # d.val /\ e.val # TruncBits(d.val, 64) THEN "dec_value"
  ELSE "ok"

ScalarPayload(kind, v) ==
  CASE kind = "bool" -> EncBool(v)
    [] kind \in {"float", "double"} -> v
    [] OTHER -> EncScalarInt(kind, IntV(v))
FieldClause(e) ==
  LET want == Tag(e.num, WireTypeOf(e.kind)) \o ScalarPayload(e.kind, e.v) IN
  IF e.res # "ok" THEN "field_raises" ELSE IF e.out # want THEN "field_bytes" ELSE "ok"

FieldDecClause(e) ==
  LET t == DecVarint(e.b, 1) IN
  IF ~t.ok \/ e.res # "ok" THEN "fielddec_raises"
  ELSE LET kind == e.kind
           got == CASE WireTypeOf(kind) = 0 ->
                         (LET d == DecVarint(e.b, t.next) IN
                          IF kind = "bool" THEN BoolOfVarint(d.val) ELSE IntOfVarint(kind, d.val))
                    [] kind \in {"float", "double"} -> SubSeq(e.b, t.next, Len(e.b))
                    [] OTHER -> IntOfFixed(kind, SubSeq(e.b, t.next, Len(e.b)))
           seen == IF kind \in {"bool", "float", "double"} THEN e.v ELSE IntV(e.v)
       IN IF got # seen THEN "fielddec_value" ELSE "ok"

Clause(e) == CASE e.op = "enc" -> EncClause(e)
               [] e.op = "dec" -> DecClause(e)
               [] e.op = "field" -> FieldClause(e)
               [] e.op = "fielddec" -> FieldDecClause(e)

Init == i = 1
Next == /\ i <= Len(Events)
        /\ i' = i + 1
        /\ PrintT(<<"V", Events[i].id, Clause(Events[i]), "", "">>)
TraceSpec == Init /\ [][Next]_i
=============================================================================
