---------------------------- MODULE Trace_Naming ----------------------------
(* Code -> spec: results of the naming functions and of the key -> field mapping  *)
(* for one proto identifier, judged against Naming.tla.                            *)
EXTENDS Casing, KnownFindings, Json, IOUtils, TLC, TLCExt, Integers

Shard == JsonDeserialize(IOEnv.TRACE_FILE)
Events == Shard.events
Kws == Shard.hdr.keywords
VARIABLE i

Clause(e) ==
  IF e.res # "ok" THEN <<"raises_" \o e.res, IF KF_C19_FieldShadowsMessageMethod(e.field, Shard.hdr.message_attrs) THEN "KF_C19_FieldShadowsMessageMethod" ELSE "">>
  ELSE IF ~SafeName(e.field, Kws) THEN <<"field_name_not_a_safe_identifier", "">>
  ELSE IF ~SafeName(e.method, Kws) THEN <<"method_name_not_a_safe_identifier", "">>
  ELSE IF ~SafeName(e.class, Kws) THEN <<"class_name_not_a_safe_identifier", "">>
  ELSE IF ~SafeName(e.enum_member, Kws) THEN <<"enum_member_name_not_a_safe_identifier", "">>
  ELSE IF e.field2 # e.field THEN <<"field_name_mapping_not_idempotent", "">>
  ELSE IF e.method2 # e.method THEN <<"method_name_mapping_not_idempotent", "">>
  ELSE IF e.class2 # e.class THEN <<"class_name_mapping_not_idempotent", IF KF_C19_PascalNotIdempotentOnCapitalRuns(e.class) THEN "KF_C19_PascalNotIdempotentOnCapitalRuns" ELSE "">>
  ELSE IF ~e.back_orig THEN <<"proto_name_key_dropped_by_from_dict", "">>
  ELSE IF ~e.back_snake THEN <<"snake_key_dropped_by_from_dict", "">>
  ELSE IF ~e.back_camel THEN <<"camel_key_dropped_by_from_dict", IF KF_C19_CamelKeyLosesWordBoundary(e.field) THEN "KF_C19_CamelKeyLosesWordBoundary" ELSE "">>
  ELSE <<"ok", "">>

\* where the code's outputs differ from the faithful model spec/Casing.tla (reported as model drift, never as a violation)
Drift(e) ==
  IF e.res # "ok" THEN <<>>
  ELSE LET f == FieldName(e.x, Kws) IN
       (IF e.field # f THEN <<"field">> ELSE <<>>) \o
       (IF e.method # MethodName(e.x, Kws) THEN <<"method">> ELSE <<>>) \o
       (IF e.class # ClassName(e.x, Kws) THEN <<"class">> ELSE <<>>) \o
       (IF e.enum_member # EnumMemberName(e.x, Shard.hdr.enum_name, Kws) THEN <<"enum_member">> ELSE <<>>) \o
       (IF e.ksnake # <<-1>> /\ e.ksnake # KeyOf(e.field, "snake") THEN <<"snake_key">> ELSE <<>>) \o
       (IF e.kcamel # <<-1>> /\ e.kcamel # KeyOf(e.field, "camel") THEN <<"camel_key">> ELSE <<>>) \o
       (IF e.kcamel # <<-1>> /\ e.back_camel # (FieldOfKey(e.kcamel, Kws) = e.field) THEN <<"camel_key_back">> ELSE <<>>)

Init == i = 1
Next == /\ i <= Len(Events)
        /\ i' = i + 1
        /\ LET c == Clause(Events[i]) IN PrintT(<<"V", Events[i].id, c[1], c[2], "">>)
        /\ LET d == Drift(Events[i]) IN d = <<>> \/ PrintT(<<"D", Events[i].id, d>>)
TraceSpec == Init /\ [][Next]_i
=============================================================================
