------------------------------ MODULE EnumReg ------------------------------
(***************************************************************************)
(* betterproto.Enum as a state machine (S1).  A definition is a sequence   *)
(* of (name, number) pairs; EnumType.__new__ walks it once (Define): a     *)
(* number seen for the first time creates the canonical member, a repeated *)
(* number makes the new name an alias of it.  Afterwards the registry is   *)
(* only read: lookups by number / name, try_value (open enum: undefined    *)
(* numbers yield an unregistered, unnamed member), copies, pickling, and   *)
(* mutation attempts, which must raise and change nothing.                 *)
(***************************************************************************)
EXTENDS Integers, Sequences, FiniteSets, TLC

CONSTANTS Names, MaxMembers
Numbers == {(-2147483647) - 1, -1, 0, 1, 2, 2147483647}
Probes == Numbers \cup {7}

VARIABLES def, built, vmap, mmap, last
vars == <<def, built, vmap, mmap, last>>
\* vmap: number -> canonical member (identified by the name it was created with); mmap: name -> canonical member

Init == def = <<>> /\ built = 0 /\ vmap = <<>> /\ mmap = <<>> /\ last = [op |-> "init"]

\* the class body grows by one member (only before the class is created)
Declare(nm, num) == /\ built = 0 /\ Len(def) < MaxMembers
                    /\ nm \notin { def[j].name : j \in 1..Len(def) }
                    /\ def' = Append(def, [name |-> nm, num |-> num])
                    /\ UNCHANGED <<built, vmap, mmap, last>>
\* one iteration of the loop in EnumType.__new__
Define == /\ built < Len(def) /\ (built > 0 \/ def # <<>>)
          /\ LET m == def[built + 1]
                 canon == IF m.num \in DOMAIN vmap THEN vmap[m.num] ELSE m.name IN
             /\ vmap' = [n \in (DOMAIN vmap) \cup {m.num} |-> IF n = m.num THEN canon ELSE vmap[n]]
             /\ mmap' = [s \in (DOMAIN mmap) \cup {m.name} |-> IF s = m.name THEN canon ELSE mmap[s]]
          /\ built' = built + 1
          /\ last' = [op |-> "define"]
          /\ UNCHANGED def
Ready == def # <<>> /\ built = Len(def)
NumOf(nm) == (CHOOSE j \in 1..Len(def) : def[j].name = nm)
Member(canon) == [name |-> canon, value |-> def[NumOf(canon)].num, id |-> canon]
ByNumber(n) == /\ Ready
               /\ last' = IF n \in DOMAIN vmap THEN [op |-> "bynum", res |-> "ok", m |-> Member(vmap[n])] ELSE [op |-> "bynum", res |-> "ValueError"]
               /\ UNCHANGED <<def, built, vmap, mmap>>
ByName(s) == /\ Ready
             /\ last' = IF s \in DOMAIN mmap THEN [op |-> "byname", res |-> "ok", m |-> Member(mmap[s])] ELSE [op |-> "byname", res |-> "KeyError"]
             /\ UNCHANGED <<def, built, vmap, mmap>>
\* open enum: an undefined number gives a fresh member (no name, not registered)
TryValue(n) == /\ Ready
               /\ last' = IF n \in DOMAIN vmap THEN [op |-> "try", res |-> "ok", m |-> Member(vmap[n])]
                          ELSE [op |-> "try", res |-> "ok", m |-> [name |-> "None", value |-> n, id |-> "fresh"]]
               /\ UNCHANGED <<def, built, vmap, mmap>>
Mutate(kind) == /\ Ready /\ last' = [op |-> kind, res |-> "AttributeError"] /\ UNCHANGED <<def, built, vmap, mmap>>
Next == \/ \E nm \in Names, num \in Numbers : Declare(nm, num)
        \/ Define
        \/ \E n \in Probes : ByNumber(n) \/ TryValue(n)
        \/ \E s \in Names : ByName(s)
        \/ \E k \in {"setattr_class", "delattr_class", "setattr_member", "delattr_member"} : Mutate(k)
Spec == Init /\ [][Next]_vars

ViewReg == <<def, built, vmap, mmap>>
(* ---- properties ---- *)
FirstWith(n) == def[CHOOSE j \in 1..Len(def) : def[j].num = n /\ \A i \in 1..(j - 1) : def[i].num # n].name
\* one canonical member per number: the first name declared with it; every alias resolves to it
CanonicalMembers == Ready =>
  /\ \A n \in DOMAIN vmap : vmap[n] = FirstWith(n)
  /\ \A s \in DOMAIN mmap : mmap[s] = FirstWith(def[NumOf(s)].num)
  /\ DOMAIN vmap = { def[j].num : j \in 1..Len(def) } /\ DOMAIN mmap = { def[j].name : j \in 1..Len(def) }
\* what a lookup returns carries the declared number, and the canonical name
LookupsFaithful == (Ready /\ last.op \in {"bynum", "byname", "try"} /\ last.res = "ok" /\ last.m.id # "fresh") =>
  /\ last.m.name = FirstWith(last.m.value)
UnknownStaysUnknown == (Ready /\ last.op = "try" /\ last.m.id = "fresh") => last.m.value \notin DOMAIN vmap
\* once the class exists nothing changes it
RegistryImmutable == [][built = Len(def) /\ def # <<>> => (vmap' = vmap /\ mmap' = mmap /\ def' = def)]_vars
=============================================================================
