-------------------------------- MODULE Grpc --------------------------------
(***************************************************************************)
(* One RPC through the generated client stub and server base, as a small   *)
(* state machine: the caller issues the call (requests, call-level and     *)
(* stub-level timeout / deadline / metadata), the request is routed, the   *)
(* handler registered for the route runs (overridden: answers or raises a  *)
(* status; not overridden: UNIMPLEMENTED), responses travel back in order. *)
(* Outcome(call) is what the caller and the server must observe.           *)
(***************************************************************************)
EXTENDS Integers, Sequences, FiniteSets, TLC

None == 0          \* "not given" for timeout / deadline (seconds, in thousands) and metadata ("" for metadata)
Pick(callv, stubv) == IF callv # None THEN callv ELSE stubv                 \* per-call values take precedence
MinSet(a, b) == IF a = None THEN b ELSE IF b = None THEN a ELSE IF a < b THEN a ELSE b
\* the deadline the server sees (grpclib combines an effective timeout and an effective deadline to the earlier one)
EffDeadline(c) == MinSet(Pick(c.kw.timeout, c.stubkw.timeout), Pick(c.kw.deadline, c.stubkw.deadline))
\* metadata: "" = not given, "<empty>" = given but empty ({} / [] / ()): a per-call value that is given wins even when it is empty
Shown(md) == IF md = "<empty>" THEN "" ELSE md
EffMetadata(c) == IF c.kw.metadata # "" THEN Shown(c.kw.metadata) ELSE Shown(c.stubkw.metadata)
\* an explicit per-call timeout of zero is a value too (kw.tzero): the stub-level default must not replace it

Streams(card) == [cs |-> card \in {"STREAM_UNARY", "STREAM_STREAM"}, ss |-> card \in {"UNARY_STREAM", "STREAM_STREAM"}]

(* ---- the call machine (model-checked on its own: every call ends in exactly one terminal state) ---- *)
VARIABLES phase, call, delivered, answered
vars == <<phase, call, delivered, answered>>
Modes == {"ok", "raise", "default"}
Cards == {"UNARY_UNARY", "UNARY_STREAM", "STREAM_UNARY", "STREAM_STREAM"}
Init == /\ phase = "idle" /\ delivered = 0 /\ answered = 0
        /\ call \in [card : Cards, mode : Modes, nreq : 0..2, nresp : 0..2]
Issue == phase = "idle" /\ phase' = "routed" /\ UNCHANGED <<call, delivered, answered>>
Invoke == /\ phase = "routed"
          /\ phase' = IF call.mode = "default" THEN "unimplemented" ELSE "handling"
          /\ UNCHANGED <<call, delivered, answered>>
NReq == IF Streams(call.card).cs THEN call.nreq ELSE 1
NResp == IF Streams(call.card).ss THEN call.nresp ELSE 1
Deliver == phase = "handling" /\ delivered < NReq /\ delivered' = delivered + 1 /\ UNCHANGED <<phase, call, answered>>
Answer == /\ phase = "handling" /\ delivered = NReq
          /\ answered < NResp /\ ~(call.mode = "raise" /\ ~Streams(call.card).ss)
          /\ answered' = answered + 1 /\ UNCHANGED <<phase, call, delivered>>
Finish == /\ phase = "handling" /\ delivered = NReq
          /\ (answered = NResp \/ (call.mode = "raise" /\ ~Streams(call.card).ss))
          /\ phase' = IF call.mode = "raise" THEN "status" ELSE "done"
          /\ UNCHANGED <<call, delivered, answered>>
Next == Issue \/ Invoke \/ Deliver \/ Answer \/ Finish
Spec == Init /\ [][Next]_vars /\ WF_vars(Next)
Terminal == phase \in {"done", "status", "unimplemented"}
TypeOK == delivered <= NReq /\ answered <= NResp
EventuallyTerminal == <>Terminal
\* an unoverridden method never runs user code; a unary handler that raises sends no response
NoAnswerWithoutHandler == phase = "unimplemented" => answered = 0 /\ delivered = 0
RaiseBeforeUnaryAnswer == (phase = "status" /\ ~Streams(call.card).ss) => answered = 0

(* ---- what must be observed for a call c (used by Trace_Grpc) ---- *)
ExpectedStatus(c) == IF c.mode = "default" THEN "UNIMPLEMENTED" ELSE IF c.mode = "raise" THEN c.status ELSE ""
=============================================================================
