----------------------------- MODULE Trace_Json -----------------------------
(* Code -> spec for the JSON mapping (C04, C05).  JSON texts / dicts are given as   *)
(* parse trees; PJson.tla says what they denote and what a printer must guarantee.  *)
EXTENDS PJson, KnownFindings, Json, IOUtils, TLC, TLCExt

Shard == JsonDeserialize(IOEnv.TRACE_FILE)
Events == Shard.events
Idx == MkIndex(Shard.hdr.schema.types)
Enums == Shard.hdr.schema.enumcp
VARIABLE i

(* ---- C05: bp -> JSON -> reference ; reference -> JSON -> bp ---- *)
\* the texts the reference emits under its printer options (proto names as keys, enum numbers, defaults printed): the spec must
\* accept each as the same message (else the reference and the spec disagree: machinery) and so must from_json
RECURSIVE VariantsClause(_, _, _)
VariantsClause(e, want, j) ==
  IF j > Len(e.variants) THEN <<"ok", "">>
  ELSE LET v == e.variants[j]  a == AcceptJson(Idx, Enums, e.ty, v.tree) IN
    IF ~a.ok \/ a.val # want THEN <<"ref_json_differs_from_spec_" \o v.name, IF a.ok THEN DiffFields(a.val, want) ELSE a.err>>
    ELSE IF v.res # "ok" THEN <<"cannot_read_reference_json_" \o v.name \o "_" \o v.res, "">>
    ELSE IF NormMsg(v.obs) # want THEN <<"reads_reference_json_as_other_value_" \o v.name, DiffFields(NormMsg(v.obs), want)>>
    ELSE VariantsClause(e, want, j + 1)
JsonClause(e) ==
  LET want == NormMsg(e.val) IN
  IF e.res # "ok" THEN <<"to_json_raises_" \o e.res, "">>
  ELSE IF ~e.valid_json THEN <<"output_is_not_valid_json", "">>
  ELSE LET a == AcceptJson(Idx, Enums, e.ty, e.tree) IN
    IF ~a.ok THEN <<"json_not_in_the_proto3_mapping", a.err>>
    ELSE IF a.unknown THEN <<"json_has_key_of_no_field", "">>
    ELSE IF a.val # want THEN <<"json_denotes_other_value", DiffFields(a.val, want)>>
    ELSE LET c == Canonical(Idx, Enums, e.ty, e.tree) IN
      IF c # "" THEN <<"json_not_canonical_" \o c, "">>
      ELSE IF e.ref_res # "ok" THEN <<"ref_rejects_json_the_spec_accepts_" \o e.ref_res, "">>
      ELSE IF NormMsg(e.ref_obs) # want THEN <<"ref_reads_other_value", DiffFields(NormMsg(e.ref_obs), want)>>
      ELSE LET r == AcceptJson(Idx, Enums, e.ty, e.ref_tree) IN
        IF ~r.ok \/ r.val # want THEN <<"ref_json_differs_from_spec", IF r.ok THEN DiffFields(r.val, want) ELSE r.err>>
        ELSE IF e.bp_res2 # "ok" THEN <<"cannot_read_reference_json_" \o e.bp_res2, "">>
        ELSE IF NormMsg(e.bp_obs2) # want THEN <<"reads_reference_json_as_other_value", DiffFields(NormMsg(e.bp_obs2), want)>>
        ELSE VariantsClause(e, want, 1)

(* ---- C04: from_dict(to_dict(m)) / from_json(to_json(m)), both casings, both forms ---- *)
RtJsonClause(e) ==
  LET want == NormMsg(e.val) IN
  IF e.res # "ok" THEN <<"raises_" \o e.res, "">>
  ELSE IF e.dumps # "ok" THEN <<"to_dict_not_json_serialisable_" \o e.dumps, "">>
  ELSE IF NormMsg(e.obs) # want THEN <<"reconstructed_value", DiffFields(NormMsg(e.obs), want)>>
  ELSE IF ~e.eq THEN <<"reconstructed_not_equal", "">>
  ELSE IF ~e.samebytes /\ ~(MsgHasNaN(want) /\ NormMsg(SpecDecode(Idx, e.ty, e.b_back).val) = NormMsg(SpecDecode(Idx, e.ty, e.b_orig).val))
       THEN <<"reconstructed_encodes_differently", "">>       \* (a NaN's payload bits cannot travel through "NaN")
  ELSE LET a == AcceptJson(Idx, Enums, e.ty, e.tree) IN
    IF ~a.ok THEN <<"dict_not_in_the_proto3_mapping", a.err>>
    \* (keys that are not protoc json names / proto names - possible for SNAKE casing and re-cased names - are C05/C19's subject)
    ELSE IF ~a.unknown /\ a.val # want THEN <<"dict_denotes_other_value", DiffFields(a.val, want)>>
    ELSE <<"ok", "">>

KFJson(e, clause) ==
  IF e.op = "json" /\ clause = "json_has_key_of_no_field" /\ KF_C05_AcronymFieldName(Idx[e.ty].fields, e.val)
  THEN "KF_C05_AcronymFieldName" ELSE ""
Clause(e) == CASE e.op = "json" -> JsonClause(e) [] e.op = "rtjson" -> RtJsonClause(e)

Init == i = 1
Next == /\ i <= Len(Events)
        /\ i' = i + 1
        /\ LET c == Clause(Events[i]) IN
           PrintT(<<"V", Events[i].id, c[1], IF c[1] = "ok" THEN "" ELSE KFJson(Events[i], c[1]), c[2]>>)
TraceSpec == Init /\ [][Next]_i
=============================================================================
