----------------------------- MODULE Trace_Time -----------------------------
(* Code -> spec for Timestamp / Duration conversions.  One event = one datetime or  *)
(* timedelta (its exact microsecond count e.us computed with integer arithmetic)    *)
(* stored in a one-field message by betterproto and converted by the reference.     *)
EXTENDS Codec, Json, IOUtils, TLC, TLCExt

Shard == JsonDeserialize(IOEnv.TRACE_FILE)
Events == Shard.events
VARIABLE i

I(r) == MkInt(r.neg, r.mag)
\* the (seconds, nanos) sub-message of field 1 in bytes b
PairOf(b) ==
  LET p == ParseFields(b) IN
  IF ~p.ok \/ Len(p.fields) # 1 \/ p.fields[1].num # 1 \/ p.fields[1].wt # 2 THEN [ok |-> FALSE, v |-> [s |-> Zero, n |-> Zero]]
  ELSE LET sn == SecNanos("x", Slice(b, p.fields[1].ps, p.fields[1].pe)) IN [ok |-> sn.ok, v |-> [s |-> sn.v.s, n |-> sn.v.n]]

Shape(txt, isTs) ==      \* canonical shape of the JSON string
  IF isTs THEN Len(txt) \in {20, 24, 27, 30} /\ txt[Len(txt)] = 90
  ELSE /\ txt[Len(txt)] = 115
       /\ \A k \in 1..Len(txt) : txt[k] \in (48..57) \cup {45, 46, 115}        \* digits, '-', '.', 's': no exponent

Clause(e) ==
  LET us == I(e.us)  isTs == e.kind = "ts"
      want == IF isTs THEN TsOfMicros(us) ELSE DurOfMicros(us)
      refp == [s |-> I(e.ref_s), n |-> I(e.ref_n)] IN
  IF refp # want THEN "ref_pair_differs_from_spec"
  ELSE IF e.res # "ok" THEN "raises_" \o e.res
  ELSE LET got == PairOf(e.b) IN
    IF us.mag = <<>> /\ e.b = <<>> THEN (IF I(e.back_us) = us THEN "ok" ELSE "decodes_back_differently")
    ELSE IF ~got.ok THEN "encoding_malformed"
    ELSE IF got.v # want THEN "encoded_seconds_nanos"
    ELSE IF I(e.back_us) # us THEN "decodes_back_differently"
    ELSE IF ~e.same_instant THEN "aware_datetime_other_instant"
    ELSE LET pj == IF isTs THEN ParseRfc3339(e.json) ELSE ParseDurText(e.json)
             pr == IF isTs THEN ParseRfc3339(e.ref_json) ELSE ParseDurText(e.ref_json) IN
      IF ~pr.ok \/ pr.v # want THEN "ref_json_differs_from_spec"
      ELSE IF ~pj.ok THEN "json_not_in_the_spec_grammar"
      ELSE IF pj.v # want THEN "json_denotes_other_value"
      ELSE IF ~Shape(e.json, isTs) THEN "json_not_canonical_shape"
      ELSE IF I(e.json_back_us) # us THEN "json_round_trip_value"
      ELSE "ok"

Init == i = 1
Next == /\ i <= Len(Events)
        /\ i' = i + 1
        /\ PrintT(<<"V", Events[i].id, Clause(Events[i]), "", "">>)
TraceSpec == Init /\ [][Next]_i
=============================================================================
