---------------------------- MODULE MessageObj ----------------------------
(* Faithful model (S1) of betterproto.Message for one fixed schema (two oneof        *)
(* groups with scalar / string / message members, a proto3-optional field, a plain   *)
(* sub-message, a wrapper).  Values are abstract (ints 0/1, strings ""/"v"), the     *)
(* wire is a sequence of abstract entries [n, v].  Written from __post_init__,       *)
(* __setattr__, __getattribute__ (lazy default materialisation), dump, load, __eq__, *)
(* __copy__, __deepcopy__, pickling: raw slots (PLACEHOLDER / None / value),         *)
(* _serialized_on_wire, _group_current and _unknown_fields are the state.            *)
EXTENDS Naturals, Sequences, FiniteSets, TLC

PH   == [k |-> "ph"]
NONE == [k |-> "none"]
I(v) == [k |-> "i", v |-> v]
S(v) == [k |-> "s", v |-> v]
M(o) == [k |-> "m", m |-> o]
R(xs) == [k |-> "r", xs |-> xs]                    \* a repeated scalar field: the list object the slot holds
MaxList == 1                                       \* (in-place appends per list in the exhaustive configuration)

(* ---------------- schema (data) ---------------- *)
Fields(ty) == IF ty = "T" THEN <<"f1", "f2", "f3", "f4", "f5", "f6", "f7", "f8">> ELSE <<"x", "ys">>
Meta(ty) ==
  IF ty = "T" THEN
    [ f1 |-> [n |-> 1, kind |-> "i", group |-> "",   opt |-> FALSE],
      f2 |-> [n |-> 2, kind |-> "s", group |-> "g1", opt |-> FALSE],
      f3 |-> [n |-> 3, kind |-> "m", group |-> "g1", opt |-> FALSE],
      f4 |-> [n |-> 4, kind |-> "i", group |-> "g2", opt |-> FALSE],
      f5 |-> [n |-> 5, kind |-> "s", group |-> "g2", opt |-> FALSE],
      f6 |-> [n |-> 6, kind |-> "i", group |-> "",   opt |-> TRUE],
      f7 |-> [n |-> 7, kind |-> "m", group |-> "",   opt |-> FALSE],
      f8 |-> [n |-> 8, kind |-> "w", group |-> "",   opt |-> FALSE] ]
  ELSE [ x  |-> [n |-> 1, kind |-> "i", group |-> "", opt |-> FALSE],
         ys |-> [n |-> 2, kind |-> "r", group |-> "", opt |-> FALSE] ]
FieldSet(ty) == { Fields(ty)[j] : j \in DOMAIN Fields(ty) }
Groups(ty) == { Meta(ty)[f].group : f \in FieldSet(ty) } \ {""}
Members(ty, g) == { f \in FieldSet(ty) : Meta(ty)[f].group = g }

InitSlot(ty, f) == IF Meta(ty)[f].opt THEN NONE ELSE PH

FreshInner == [ slot |-> [f \in FieldSet("Inner") |-> PH], sow |-> FALSE,
                cur |-> [g \in Groups("Inner") |-> "-"], unk |-> <<>> ]
Default(ty, f) ==
  LET m == Meta(ty)[f] IN
  IF m.opt \/ m.kind = "w" THEN NONE
  ELSE CASE m.kind = "i" -> I(0) [] m.kind = "s" -> S("") [] m.kind = "m" -> M(FreshInner) [] m.kind = "r" -> R(<<>>)

(* ---------------- __post_init__ ---------------- *)
NonSentinel(ty, f, v) == v # PH /\ ~(Meta(ty)[f].opt /\ v = NONE)
RECURSIVE LastSet(_, _, _, _)
\* last declared member of group g holding a non-sentinel value ("-" if none)
LastSet(ty, slot, g, j) ==
  IF j = 0 THEN "-"
  ELSE LET f == Fields(ty)[j] IN
       IF Meta(ty)[f].group = g /\ NonSentinel(ty, f, slot[f]) THEN f ELSE LastSet(ty, slot, g, j - 1)
New(ty, kw) ==   \* kw: function from a subset of fields to slot values
  LET slot == [f \in FieldSet(ty) |-> IF f \in DOMAIN kw THEN kw[f] ELSE InitSlot(ty, f)] IN
  [ slot |-> slot,
    sow  |-> \E f \in FieldSet(ty) : NonSentinel(ty, f, slot[f]),
    cur  |-> [g \in Groups(ty) |-> LastSet(ty, slot, g, Len(Fields(ty)))],
    unk  |-> <<>> ]

(* ---------------- __getattribute__ / __setattr__ ---------------- *)
Readable(ty, o, f) == LET g == Meta(ty)[f].group IN g = "" \/ o.cur[g] = f
Materialise1(ty, o, f) ==   \* effect of a successful getattr
  IF o.slot[f] = PH THEN [o EXCEPT !.slot[f] = Default(ty, f)] ELSE o
ValueOf(ty, o, f) == IF o.slot[f] = PH THEN Default(ty, f) ELSE o.slot[f]

SetAttr(ty, o, f, v) ==
  LET g == Meta(ty)[f].group
      o1 == [o EXCEPT !.sow = TRUE]
      o2 == IF g = "" THEN o1
            ELSE [o1 EXCEPT !.cur[g] = f,
                            !.slot = [h \in FieldSet(ty) |-> IF h # f /\ Meta(ty)[h].group = g THEN PH ELSE @[h]]]
  IN [o2 EXCEPT !.slot[f] = v]

(* ---------------- __eq__ ---------------- *)
RECURSIVE MsgEq(_, _, _), ValEq(_, _)
ValEq(a, b) == IF a.k = "m" /\ b.k = "m" THEN MsgEq("Inner", a.m, b.m) ELSE a = b
MsgEq(ty, a, b) ==
  \A f \in FieldSet(ty) :
     IF a.slot[f] = PH /\ b.slot[f] = PH THEN TRUE
     ELSE ValEq(ValueOf(ty, a, f), ValueOf(ty, b, f))

(* ---------------- dump (pure part) and its materialisation side effect ---------------- *)
RECURSIVE Encode(_, _), EncFrom(_, _, _), MatAll(_, _), MatFrom(_, _, _)
Emitted(ty, o, f) ==      \* does dump write field f ?
  /\ Readable(ty, o, f)
  /\ LET m == Meta(ty)[f]  v == ValueOf(ty, o, f)
         selected == m.group # "" \/ m.opt
         sempty   == v.k = "m" /\ v.m.sow
         incl     == m.group # "" /\ o.cur[m.group] = f
     IN /\ v # NONE
        /\ ~(ValEq(v, Default(ty, f)) /\ ~(selected \/ sempty \/ incl))
EncField(ty, o, f) ==     \* the entries written for f (<<>> when _serialize_single returns b"")
  LET m == Meta(ty)[f]  v == ValueOf(ty, o, f)
      selected == m.group # "" \/ m.opt
      sempty   == v.k = "m" /\ v.m.sow
      incl     == m.group # "" /\ o.cur[m.group] = f
      sempty2  == sempty \/ (v.k = "s" /\ v.v = "" /\ incl) \/ selected
  IN CASE m.kind = "i" -> << [n |-> m.n, v |-> v] >>
       [] m.kind = "r" -> [j \in 1..Len(v.xs) |-> [n |-> m.n, v |-> v.xs[j]]]
       [] m.kind = "s" -> IF v.v # "" \/ sempty2 THEN << [n |-> m.n, v |-> v] >> ELSE <<>>
       [] m.kind = "m" -> LET inner == Encode("Inner", v.m) IN
                          IF inner # <<>> \/ sempty2 THEN << [n |-> m.n, v |-> [k |-> "l", l |-> inner]] >> ELSE <<>>
       [] m.kind = "w" -> << [n |-> m.n, v |-> [k |-> "l", l |-> IF v.v = 0 THEN <<>> ELSE << [n |-> 1, v |-> v] >>]] >>
EncFrom(ty, o, j) ==
  IF j > Len(Fields(ty)) THEN o.unk
  ELSE LET f == Fields(ty)[j] IN
       (IF Emitted(ty, o, f) THEN EncField(ty, o, f) ELSE <<>>) \o EncFrom(ty, o, j + 1)
Encode(ty, o) == EncFrom(ty, o, 1)

\* side effect of bytes(o): getattr on every readable field; bytes() of every emitted sub-message
MatFrom(ty, o, j) ==
  IF j > Len(Fields(ty)) THEN o
  ELSE LET f == Fields(ty)[j] IN
       IF ~Readable(ty, o, f) THEN MatFrom(ty, o, j + 1)
       ELSE LET o1 == Materialise1(ty, o, f)
                o2 == IF Emitted(ty, o1, f) /\ Meta(ty)[f].kind = "m"
                      THEN [o1 EXCEPT !.slot[f] = M(MatAll("Inner", @.m))] ELSE o1
            IN MatFrom(ty, o2, j + 1)
MatAll(ty, o) == MatFrom(ty, o, 1)

(* ---------------- load ---------------- *)
FieldByNum(ty, n) == LET c == { f \in FieldSet(ty) : Meta(ty)[f].n = n } IN
                     IF c = {} THEN "-" ELSE CHOOSE f \in c : TRUE
RECURSIVE Load(_, _, _)
WrapVal(l) == IF l = <<>> THEN I(0) ELSE l[Len(l)].v      \* Int32Value().parse(...).value  (last wins)
Load(ty, o, es) ==
  IF es = <<>> THEN o
  ELSE LET e == Head(es)  f == FieldByNum(ty, e.n) IN
       IF f = "-" THEN Load(ty, [o EXCEPT !.unk = Append(@, e)], Tail(es))
       ELSE LET kind == Meta(ty)[f].kind
                v == CASE kind = "m" -> M([Load("Inner", [FreshInner EXCEPT !.sow = TRUE], e.v.l) EXCEPT !.sow = TRUE])
                       [] kind = "w" -> WrapVal(e.v.l)
                       [] OTHER -> e.v
            IN IF kind = "r" THEN Load(ty, [o EXCEPT !.slot[f] = R(Append(ValueOf(ty, o, f).xs, e.v))], Tail(es))
               ELSE Load(ty, SetAttr(ty, o, f, v), Tail(es))
Parse(ty, o, es) == Load(ty, [o EXCEPT !.sow = TRUE], es)

(* ---------------- copy / deepcopy / pickle ---------------- *)
RECURSIVE DeepCopy(_, _)
DeepVal(v) == IF v.k = "m" THEN M(DeepCopy("Inner", v.m)) ELSE v
\* constructor from the non-placeholder slots; unknown fields and the presence flag are carried over
DeepCopy(ty, o) == [New(ty, [f \in { h \in FieldSet(ty) : o.slot[h] # PH } |-> DeepVal(o.slot[f])]) EXCEPT !.unk = o.unk, !.sow = o.sow]
ShallowCopy(ty, o) == [New(ty, [f \in { h \in FieldSet(ty) : o.slot[h] # PH } |-> o.slot[f]]) EXCEPT !.unk = o.unk, !.sow = o.sow]
\* pickling calls bytes(o) first (materialising o), the result is a fresh parse
Pickle(ty, o) == Parse(ty, New(ty, <<>>), Encode(ty, o))

(* ======================= the state machine ======================= *)
VARIABLES obj, last          \* last = outcome of the last call (for observers)
vars == <<obj, last>>

ScalarVals(kind) == CASE kind = "i" -> {I(0), I(1)} [] kind = "s" -> {S(""), S("v")}
                      [] kind = "w" -> {I(0), I(1), NONE}
InnerVals == { New("Inner", <<>>), New("Inner", [x |-> I(0)]), New("Inner", [x |-> I(1)]), New("Inner", [ys |-> R(<<I(1)>>)]) }
ValsFor(f) == LET m == Meta("T")[f] IN
              IF m.kind = "m" THEN { M(o) : o \in InnerVals }
              ELSE ScalarVals(m.kind) \cup (IF m.opt THEN {NONE} ELSE {})

L(es) == [k |-> "l", l |-> es]
Pool == {  <<>>,
           << [n |-> 1, v |-> I(1)] >>,
           << [n |-> 2, v |-> S("")] >>,
           << [n |-> 2, v |-> S("v")], [n |-> 3, v |-> L(<<>>)] >>,
           << [n |-> 3, v |-> L(<< [n |-> 1, v |-> I(1)] >>)], [n |-> 2, v |-> S("v")] >>,
           << [n |-> 4, v |-> I(0)] >>,
           << [n |-> 5, v |-> S("v")], [n |-> 9, v |-> I(1)] >>,
           << [n |-> 6, v |-> I(0)] >>,
           << [n |-> 7, v |-> L(<<>>)] >>,
           << [n |-> 7, v |-> L(<< [n |-> 1, v |-> I(1)], [n |-> 9, v |-> I(1)] >>)] >>,
           << [n |-> 7, v |-> L(<< [n |-> 2, v |-> I(1)] >>)] >>,
           << [n |-> 3, v |-> L(<< [n |-> 2, v |-> I(1)], [n |-> 1, v |-> I(1)] >>)] >>,
           << [n |-> 8, v |-> L(<<>>)] >>,
           << [n |-> 8, v |-> L(<< [n |-> 1, v |-> I(1)] >>)] >> }

Init == obj = New("T", <<>>) /\ last = [op |-> "new"]

ANew1(f, v) == obj' = New("T", [h \in {f} |-> v]) /\ last' = [op |-> "new"]
ANew2(f, v, f2, v2) == f # f2 /\ obj' = New("T", [h \in {f, f2} |-> IF h = f THEN v ELSE v2]) /\ last' = [op |-> "new"]
ASet(f, v) == obj' = SetAttr("T", obj, f, v) /\ last' = [op |-> "set"]
AGet(f) == IF Readable("T", obj, f)
           THEN obj' = Materialise1("T", obj, f) /\ last' = [op |-> "get", r |-> "ok"]
           ELSE obj' = obj /\ last' = [op |-> "get", r |-> "AttributeError"]
\* m.<f>.x = v   (f a message-typed field): getattr (materialise) then setattr on the child
ASetIn(f, v) == /\ Meta("T")[f].kind = "m"
                /\ IF Readable("T", obj, f)
                   THEN LET o1 == Materialise1("T", obj, f) IN
                        obj' = [o1 EXCEPT !.slot[f] = M(SetAttr("Inner", @.m, "x", v))] /\ last' = [op |-> "setin", r |-> "ok"]
                   ELSE obj' = obj /\ last' = [op |-> "setin", r |-> "AttributeError"]
AGetIn(f, x) == /\ Meta("T")[f].kind = "m"
                /\ IF Readable("T", obj, f)
                   THEN LET o1 == Materialise1("T", obj, f) IN
                        obj' = [o1 EXCEPT !.slot[f] = M(Materialise1("Inner", @.m, x))] /\ last' = [op |-> "getin", r |-> "ok"]
                   ELSE obj' = obj /\ last' = [op |-> "getin", r |-> "AttributeError"]
\* m.<f>.ys.append(1): two reads (each materialises a default) and a change of the list object in place - no __setattr__ anywhere,
\* so no presence flag moves
AAppendIn(f) == /\ Meta("T")[f].kind = "m"
                /\ IF Readable("T", obj, f)
                   THEN LET o1 == Materialise1("T", obj, f)
                            in1 == Materialise1("Inner", o1.slot[f].m, "ys") IN
                        /\ Len(in1.slot["ys"].xs) < MaxList
                        /\ obj' = [o1 EXCEPT !.slot[f] = M([in1 EXCEPT !.slot["ys"] = R(Append(@.xs, I(1)))])]
                        /\ last' = [op |-> "appendin", r |-> "ok"]
                   ELSE obj' = obj /\ last' = [op |-> "appendin", r |-> "AttributeError"]
AParse(es) == obj' = Parse("T", obj, es) /\ last' = [op |-> "parse"]
ABytes == obj' = MatAll("T", obj) /\ last' = [op |-> "bytes", out |-> Encode("T", obj)]
ADeepCopy == obj' = DeepCopy("T", obj) /\ last' = [op |-> "deepcopy"]
ACopy == obj' = ShallowCopy("T", obj) /\ last' = [op |-> "copy"]
APickle == obj' = Pickle("T", obj) /\ last' = [op |-> "pickle"]

Next ==
  \/ \E f \in FieldSet("T") : \E v \in ValsFor(f) : ANew1(f, v) \/ ASet(f, v)
  \/ \E f \in {"f2", "f3"}, f2 \in {"f4", "f7"} : \E v \in ValsFor(f), v2 \in ValsFor(f2) : ANew2(f, v, f2, v2)
  \/ \E f \in FieldSet("T") : AGet(f)
  \/ \E f \in {"f3", "f7"} : (\E x \in {"x", "ys"} : AGetIn(f, x)) \/ (\E v \in {I(0), I(1)} : ASetIn(f, v)) \/ AAppendIn(f)
  \/ \E es \in Pool : AParse(es)
  \/ ABytes \/ ADeepCopy \/ ACopy \/ APickle
Spec == Init /\ [][Next]_vars

(* ======================= properties ======================= *)
\* C07: at most one member of each group is set, and cur names it
OneofExclusive ==
  \A g \in Groups("T") :
     /\ Cardinality({ f \in Members("T", g) : obj.slot[f] # PH }) <= 1
     /\ \A f \in Members("T", g) : obj.slot[f] # PH => obj.cur[g] = f
\* C07 on the wire: at most one member of each group is emitted
WireExclusive ==
  \A g \in Groups("T") : Cardinality({ f \in Members("T", g) : Emitted("T", obj, f) }) <= 1
\* C14: bytes() is an observer: it must not change what the message encodes to / equals
BytesPure == [][ABytes => (Encode("T", obj') = Encode("T", obj) /\ MsgEq("T", obj', obj))]_vars
\* C14: deepcopy yields an equal message with identical bytes
DeepCopyFaithful == [][ADeepCopy => (Encode("T", obj') = Encode("T", obj) /\ MsgEq("T", obj', obj))]_vars
PickleFaithful == [][APickle => (Encode("T", obj') = Encode("T", obj) /\ MsgEq("T", obj', obj))]_vars

(* ---- C06 ---- *)
FreshIsEmpty == Encode("T", New("T", <<>>)) = <<>> /\ \A f \in FieldSet("T") : Readable("T", New("T", <<>>), f) => ValueOf("T", New("T", <<>>), f) = Default("T", f)
EntryNums(es) == { es[j].n : j \in 1..Len(es) }
\* an implicit-presence field holding its default is never emitted
ImplicitDefaultSkipped == (ValueOf("T", obj, "f1") = I(0)) => 1 \notin EntryNums(Encode("T", obj))
\* optional / oneof member / wrapper that is set (even to its default) is emitted
ExplicitPresenceEmitted ==
  /\ (obj.slot["f6"] \notin {NONE, PH}) => 6 \in EntryNums(Encode("T", obj))
  /\ (obj.slot["f8"] \notin {NONE, PH}) => 8 \in EntryNums(Encode("T", obj))
  /\ \A g \in Groups("T") : obj.cur[g] # "-" => Meta("T")[obj.cur[g]].n \in EntryNums(Encode("T", obj))
\* a plain sub-message is emitted exactly when serialized_on_wire reports it
\* (serialized_on_wire(m) = the flag, or the message has content: a sub-message filled only in place - AAppendIn - has never
\*  been assigned to; since 70e0ad2 the public function reports it)
HasContent(ty, o) == \E f \in FieldSet(ty) : o.slot[f] # PH /\ ~ValEq(o.slot[f], Default(ty, f))
SowReported(ty, o) == o.sow \/ HasContent(ty, o)
SubmessageEmittedIffSow ==
  (7 \in EntryNums(Encode("T", obj))) <=> (obj.slot["f7"].k = "m" /\ SowReported("Inner", obj.slot["f7"].m))
\* the same with the bare flag: NOT an invariant (TLC finds  AAppendIn("f7")) - that was the defect
SubmessageEmittedIffRawFlag ==
  (7 \in EntryNums(Encode("T", obj))) <=> (obj.slot["f7"].k = "m" /\ obj.slot["f7"].m.sow)
(* ---- C14: every observer action leaves encoding and equality unchanged ---- *)
ObserversPure == [][(\E f \in FieldSet("T") : AGet(f)) \/ (\E f \in {"f3", "f7"} : \E x \in {"x", "ys"} : AGetIn(f, x)) \/ ABytes
                     => (Encode("T", obj') = Encode("T", obj) /\ MsgEq("T", obj', obj))]_vars
CopyFaithful == [][ACopy => (Encode("T", obj') = Encode("T", obj) /\ MsgEq("T", obj', obj))]_vars
\* bounds for the exhaustive configuration: the unknown-field pools must stay finite
NestedUnkOK(o) == \A f \in FieldSet("T") : o.slot[f].k = "m" => (Len(o.slot[f].m.unk) <= 1 /\ (o.slot[f].m.slot["ys"] = PH \/ Len(o.slot[f].m.slot["ys"].xs) <= 2))
Bounded == Len(obj.unk) <= 1 /\ NestedUnkOK(obj)
ViewObj == obj
CONSTANT MaxLevel
LevelBound == TLCGet("level") <= MaxLevel
=============================================================================
