------------------------------- MODULE Casing -------------------------------
\* Faithful model (S1) of betterproto/casing.py and compile/naming.py over ASCII code-point sequences:
\* the tokenisation performed by re.sub with the pattern
\*       ( ^ )?  ( SYMBOLS )  ( WORD_UPPER | WORD )
\*       SYMBOLS = [^a-zA-Z0-9]*      WORD_UPPER = [A-Z]+ (?![a-z]) [0-9]*      WORD = [A-Z]* [a-z]* [0-9]*
\* (greedy, leftmost, with the one backtracking step the look-ahead forces), the strict snake / Pascal / camel
\* substitutions, sanitize_name, the key to_dict emits (casing(field).rstrip("_")) and the key -> field mapping of
\* from_dict (safe_snake_case).  MC_Casing model-checks C19 on it for every identifier up to a length bound;
\* Trace_Naming reports where the code's outputs differ from this model (drift - not a violation: Naming.tla states
\* only postconditions, so another valid casing algorithm raises no alarm).
EXTENDS Naturals, Sequences, Naming

IsUp(c) == c >= 65 /\ c <= 90
IsLo(c) == c >= 97 /\ c <= 122
IsDg(c) == c >= 48 /\ c <= 57
IsAlnum(c) == IsUp(c) \/ IsLo(c) \/ IsDg(c)
InClass(c, cls) == CASE cls = "sym" -> ~IsAlnum(c)
                     [] cls = "up" -> IsUp(c)
                     [] cls = "lo" -> IsLo(c)
                     [] cls = "dg" -> IsDg(c)
LowerC(c) == IF IsUp(c) THEN c + 32 ELSE c
UpperC(c) == IF IsLo(c) THEN c - 32 ELSE c
LowerS(s) == [k \in 1..Len(s) |-> LowerC(s[k])]
UpperS(s) == [k \in 1..Len(s) |-> UpperC(s[k])]
Capitalize(s) == [k \in 1..Len(s) |-> IF k = 1 THEN UpperC(s[k]) ELSE LowerC(s[k])]     \* str.capitalize()
Sub(s, a, b) == IF a >= b THEN <<>> ELSE SubSeq(s, a, b - 1)                               \* s[a:b), 1-based

\* end (exclusive) of the maximal run of class cls starting at p  -- a greedy  [cls]*
RECURSIVE RunEnd(_, _, _)
RunEnd(s, p, cls) == IF p <= Len(s) /\ InClass(s[p], cls) THEN RunEnd(s, p + 1, cls) ELSE p

\* one match of the pattern at position p (the engine never has to shorten the symbol run: the last
\* alternative matches the empty word).  WORD_UPPER = [A-Z]+(?![a-z])[0-9]* : all capitals if what follows
\* is not a lower-case letter, else all but the last one (needs two); otherwise WORD = [A-Z]*[a-z]*[0-9]*.
Token(s, p) ==
  LET q == RunEnd(s, p, "sym")
      u == RunEnd(s, q, "up")
      k == u - q
      lowerNext == u <= Len(s) /\ IsLo(s[u])
      e == IF k >= 1 /\ ~lowerNext THEN RunEnd(s, u, "dg")
           ELSE IF k >= 2 THEN u - 1
           ELSE RunEnd(s, RunEnd(s, u, "lo"), "dg")
  IN [start |-> p, nsym |-> q - p, word |-> Sub(s, q, e), next |-> e]

\* all matches, left to right (an empty match can only occur at the end of the input and contributes nothing)
RECURSIVE Tokens(_, _)
Tokens(s, p) == IF p > Len(s) THEN <<>>
                ELSE LET t == Token(s, p) IN <<t>> \o (IF t.next = p THEN <<>> ELSE Tokens(s, t.next))

RECURSIVE ConcatMap(_, _, _)
ConcatMap(ts, k, mode) ==
  IF k > Len(ts) THEN <<>>
  ELSE LET t == ts[k]
           piece == IF mode = "snake"
                    THEN (IF t.word = <<>> THEN <<>> ELSE (IF t.start = 1 THEN <<>> ELSE <<95>>) \o LowerS(t.word))
                    ELSE Capitalize(t.word)
       IN piece \o ConcatMap(ts, k + 1, mode)

Snake(s) == ConcatMap(Tokens(s, 1), 1, "snake")                     \* snake_case(value, strict=True)
Pascal(s) == ConcatMap(Tokens(s, 1), 1, "pascal")                   \* pascal_case(value, strict=True)
Camel(s) == LET p == Pascal(s) IN [k \in 1..Len(p) |-> IF k = 1 THEN LowerC(p[k]) ELSE p[k]]

Sanitize(v, kws) == IF IsKeyword(v, kws) THEN v \o <<95>> ELSE IF ~IsIdent(v) THEN <<95>> \o v ELSE v
SafeSnake(s, kws) == Sanitize(Snake(s), kws)

RECURSIVE RStrip(_)
RStrip(s) == IF s # <<>> /\ s[Len(s)] = 95 THEN RStrip(Sub(s, 1, Len(s))) ELSE s
RECURSIVE LStrip(_)
LStrip(s) == IF s # <<>> /\ s[1] = 95 THEN LStrip(Sub(s, 2, Len(s) + 1)) ELSE s

\* ---- compile/naming.py ----
FieldName(x, kws) == SafeSnake(x, kws)
MethodName(x, kws) == SafeSnake(x, kws)
ClassName(x, kws) == Sanitize(Pascal(x), kws)
\* str.find: first index (1-based) at which pat occurs in s, 0 if none
RECURSIVE FindFrom(_, _, _)
FindFrom(s, pat, p) == IF p + Len(pat) - 1 > Len(s) THEN 0
                       ELSE IF Sub(s, p, p + Len(pat)) = pat THEN p ELSE FindFrom(s, pat, p + 1)
EnumMemberName(name, enumName, kws) ==
  LET pre == UpperS(Snake(enumName))
      f == FindFrom(name, pre, 1)
      rest == IF f = 0 THEN name ELSE RStrip(LStrip(Sub(name, f + Len(pre), Len(name) + 1)))
  IN Sanitize(rest, kws)

\* ---- Message.to_dict / from_dict ----
KeyOf(field, casing) == RStrip(IF casing = "camel" THEN Camel(field) ELSE Snake(field))
FieldOfKey(key, kws) == SafeSnake(key, kws)
=============================================================================
