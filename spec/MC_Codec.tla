------------------------------ MODULE MC_Codec ------------------------------
(***************************************************************************)
(* LegalEnc: the nondeterministic encoder.  For a message m of the pool    *)
(* (schema and pool are data, read from POOL_FILE) the actions emit its    *)
(* fields in any order, repeated scalars packed / unpacked / in chunks,    *)
(* varints padded, earlier shadowed occurrences of singular scalars and of *)
(* other oneof members, and unknown fields anywhere.  Every terminal state *)
(* carries one legal encoding of m.  Theorems: the ideal decoder is        *)
(* insensitive to the variation (DecoderInsensitive), the canonical        *)
(* encoder is inverted by it (CanonicalRoundTrip).  Terminal encodings are *)
(* exported (CASE lines) and replayed into betterproto and the reference.  *)
(***************************************************************************)
EXTENDS Codec, Json, IOUtils, TLC, TLCExt, FiniteSets

CONSTANTS PadMax, MaxShadow, MaxUnknown, MaxChunk, MaxVar, Export

Pool == JsonDeserialize(IOEnv.POOL_FILE)
Idx == MkIndex(Pool.schema.types)
Msgs == Pool.msgs
UnkPool == Pool.unknown          \* sequences of raw bytes of well-formed fields whose numbers are in no schema

VARIABLES mi, rem, out, unk, nsh, nvar, phase     \* nvar: non-canonical choices made so far (bounded by MaxVar)
vars == <<mi, rem, out, unk, nsh, nvar, phase>>

Ty == Msgs[mi].ty
Val == Msgs[mi].val
FieldsOf(ty) == Idx[ty].fields
FNames == Idx[Ty].names
FOf(n) == Idx[Ty].byname[n]

\* pending atoms of a field
AtomsOf(f, v) ==
  IF ~Emits(f, v) THEN <<>>
  ELSE IF f.card = "repeated" THEN v.xs
  ELSE IF f.card = "map" THEN v.es
  ELSE <<v>>

Init == /\ mi \in 1..Len(Msgs)
        /\ rem = [n \in Idx[Msgs[mi].ty].names |-> AtomsOf(Idx[Msgs[mi].ty].byname[n], Msgs[mi].val[n])]
        /\ out = <<>> /\ unk = <<>> /\ nsh = 0 /\ nvar = 0 /\ phase = "emit"

\* a map entry is a two-field message: any order of key and value, a default key / value left out, a shadowed earlier key
MapVars == {"kv", "vk", "nokey", "noval", "dupkey"}
ScalarKindM(kind) == kind \notin MsgKinds /\ kind # "map"
AltKey(kind, v) ==
  CASE kind \in IntKinds -> (IF v.mag = <<5>> /\ ~v.neg THEN [k |-> "int", neg |-> FALSE, mag |-> <<6>>] ELSE [k |-> "int", neg |-> FALSE, mag |-> <<5>>])
    [] kind = "bool" -> [k |-> "bool", v |-> ~v.v]
    [] kind = "string" -> [k |-> "str", cp |-> IF v.cp = <<122>> THEN <<121>> ELSE <<122>>]
MapVarOK(f, pair, mv) ==
  CASE mv = "nokey" -> IsDefaultScalar(f.kkind, pair[1])
    [] mv = "noval" -> ScalarKindM(f.vkind) /\ IsDefaultScalar(f.vkind, pair[2])
    [] OTHER -> TRUE
MapEntryVar(f, pair, pad, mv) ==
  LET ko == Occ(Idx, f, 1, f.kkind, pair[1], 0)
      vo == Occ(Idx, f, 2, f.vkind, pair[2], 0)
      body == CASE mv = "kv" -> ko \o vo
                [] mv = "vk" -> vo \o ko
                [] mv = "nokey" -> vo
                [] mv = "noval" -> ko
                [] mv = "dupkey" -> Occ(Idx, f, 1, f.kkind, AltKey(f.kkind, pair[1]), 0) \o ko \o vo
  IN PadTag(f.num, 2, pad) \o PadLen(body, pad)

\* emit the next k atoms of field n
Emit(n, k, packed, pad, mv) ==
  LET f == FOf(n)  xs == SubSeq(rem[n], 1, k) IN
  /\ phase = "emit" /\ k >= 1 /\ k <= Len(rem[n])
  /\ (k > 1 => (f.card = "repeated" /\ Packable(f.kind) /\ packed))
  /\ (packed => (f.card = "repeated" /\ Packable(f.kind)))
  /\ (mv # "kv" => (f.card = "map" /\ MapVarOK(f, xs[1], mv)))
  /\ out' = out \o (IF packed THEN PackedOcc(f, xs, pad)
                    ELSE IF f.card = "map" THEN MapEntryVar(f, xs[1], pad, mv)
                    ELSE Occ(Idx, f, f.num, f.kind, xs[1], pad))
  /\ rem' = [rem EXCEPT ![n] = SubSeq(@, k + 1, Len(@))]
  /\ LET canonical == pad = 0 /\ mv = "kv" /\ ((f.card = "repeated" /\ Packable(f.kind)) => (packed /\ k = Len(rem[n]))) IN
     nvar' = IF canonical THEN nvar ELSE nvar + 1
  /\ nvar' <= MaxVar
  /\ UNCHANGED <<mi, unk, nsh, phase>>

\* an alternative scalar value of the kind, different from v
AltScalar(kind, v) ==
  CASE kind \in IntKinds -> (IF v.mag = <<5>> /\ ~v.neg THEN [k |-> "int", neg |-> FALSE, mag |-> <<6>>] ELSE [k |-> "int", neg |-> FALSE, mag |-> <<5>>])
    [] kind = "bool" -> [k |-> "bool", v |-> ~v.v]
    [] kind = "float" -> [k |-> "f32", b |-> IF v.b = <<0, 0, 128, 63>> THEN <<0, 0, 0, 64>> ELSE <<0, 0, 128, 63>>]
    [] kind = "double" -> [k |-> "f64", b |-> IF v.b = <<0, 0, 0, 0, 0, 0, 240, 63>> THEN <<0, 0, 0, 0, 0, 0, 0, 64>> ELSE <<0, 0, 0, 0, 0, 0, 240, 63>>]
    [] kind = "string" -> [k |-> "str", cp |-> IF v.cp = <<122>> THEN <<121>> ELSE <<122>>]
    [] kind = "bytes" -> [k |-> "bytes", b |-> IF v.b = <<9>> THEN <<8>> ELSE <<9>>]
ScalarKind(kind) == kind \notin MsgKinds /\ kind # "map"
\* a shadowed (overridden) earlier occurrence: of the same singular scalar field, or of a sibling member of its oneof group
Shadow(n, pad) ==
  LET f == FOf(n) IN
  /\ phase = "emit" /\ nsh < MaxShadow
  /\ f.card \in {"implicit", "optional", "oneof"} /\ ScalarKind(f.kind)
  /\ Len(rem[n]) = 1                                      \* the real occurrence is still to come
  /\ out' = out \o Occ(Idx, f, f.num, f.kind, AltScalar(f.kind, rem[n][1]), pad)
  /\ nsh' = nsh + 1 /\ nvar' = nvar + 1 /\ nvar' <= MaxVar
  /\ UNCHANGED <<mi, rem, unk, phase>>
ShadowSibling(n, sib, pad) ==
  LET f == FOf(n)  g == FOf(sib) IN
  /\ phase = "emit" /\ nsh < MaxShadow
  /\ f.card = "oneof" /\ sib \in Idx[Ty].sibs[n] /\ ScalarKind(g.kind)
  /\ Len(rem[n]) = 1
  /\ out' = out \o Occ(Idx, g, g.num, g.kind, AltScalar(g.kind, ScalarDefaultV(g.kind)), pad)
  /\ nsh' = nsh + 1 /\ nvar' = nvar + 1 /\ nvar' <= MaxVar
  /\ UNCHANGED <<mi, rem, unk, phase>>
Unknown(u) ==
  /\ phase = "emit" /\ Len(unk) < MaxUnknown
  /\ out' = out \o UnkPool[u]
  /\ unk' = Append(unk, u)
  /\ nvar' = nvar + 1 /\ nvar' <= MaxVar
  /\ UNCHANGED <<mi, rem, nsh, phase>>
AllEmitted == \A n \in DOMAIN rem : rem[n] = <<>>
RECURSIVE UnkBytes(_, _)
UnkBytes(us, j) == IF j > Len(us) THEN <<>> ELSE UnkPool[us[j]] \o UnkBytes(us, j + 1)
Done == /\ phase = "emit" /\ AllEmitted
        /\ phase' = "done"
        /\ (Export => PrintT(<<"CASE", mi, out, UnkBytes(unk, 1)>>))
        /\ UNCHANGED <<mi, rem, out, unk, nsh, nvar>>

\* (the quantifier domains are cut down to the combinations that can be enabled: TLC enumerates them all)
Next == \/ \E n \in {x \in DOMAIN rem : rem[x] # <<>>} :
            LET f == FOf(n)  pk == f.card = "repeated" /\ Packable(f.kind) IN
            \E k \in 1..(IF pk THEN MaxChunk ELSE 1), packed \in (IF pk THEN BOOLEAN ELSE {FALSE}), pad \in 0..PadMax,
               mv \in (IF f.card = "map" THEN MapVars ELSE {"kv"}) : Emit(n, k, packed, pad, mv)
        \/ \E n \in DOMAIN rem, pad \in 0..PadMax : Shadow(n, pad)
        \/ \E n \in DOMAIN rem, sib \in DOMAIN rem, pad \in 0..PadMax : ShadowSibling(n, sib, pad)
        \/ \E u \in 1..Len(UnkPool) : Unknown(u)
        \/ Done
Spec == Init /\ [][Next]_vars

(* ---- theorems ---- *)
DecoderInsensitive ==
  phase = "done" =>
    LET d == SpecDecode(Idx, Ty, out) IN
    /\ d.ok /\ ~d.merged
    /\ NormMsg(d.val) = NormMsg(Val)
    /\ d.unk = UnkBytes(unk, 1)
CanonicalRoundTrip ==
  out # <<>> \/
  LET e == SpecEncode(Idx, Ty, Val)  d == SpecDecode(Idx, Ty, e) IN
  /\ d.ok /\ d.unk = <<>> /\ NormMsg(d.val) = NormMsg(Val)
  /\ SpecEncode(Idx, Ty, Val) = e
\* the size computed without building the bytes is the length of the canonical encoding (C09 on the spec)
SizeAgrees == out # <<>> \/ SpecSize(Idx, Ty, Val) = Len(SpecEncode(Idx, Ty, Val))
\* every prefix emitted so far is itself well formed (the decoder never fails on a field boundary)
PrefixWellFormed == SpecDecode(Idx, Ty, out).ok
=============================================================================
