------------------------------- MODULE Naming -------------------------------
(* What the name mapping must guarantee (C19), over identifiers as code points.    *)
(* Only postconditions are specified - not the casing algorithm - so another        *)
(* valid casing cannot raise an alarm.                                              *)
EXTENDS Naturals, Sequences, FiniteSets

IsLetter(c) == (c >= 65 /\ c <= 90) \/ (c >= 97 /\ c <= 122)
IsDigit(c) == c >= 48 /\ c <= 57
IsIdentStart(c) == IsLetter(c) \/ c = 95
IsIdentChar(c) == IsIdentStart(c) \/ IsDigit(c)
IsIdent(s) == s # <<>> /\ IsIdentStart(s[1]) /\ \A k \in 1..Len(s) : IsIdentChar(s[k])          \* ASCII identifiers
IsKeyword(s, kws) == \E k \in 1..Len(kws) : kws[k] = s
SafeName(s, kws) == IsIdent(s) /\ ~IsKeyword(s, kws)
=============================================================================
