---------------------------- MODULE Trace_Stream ----------------------------
(* Code -> spec for delimited streams.  One event = one scenario run on the real   *)
(* code: messages dumped with SIZE_DELIMITED (frames as written), the stream cut     *)
(* at e.cut, successive loads (result, observation, stream.tell()).  Judged against  *)
(* the framing rule and the property's three clauses; the reference implementation's *)
(* reading of betterproto's stream and betterproto's reading of the reference's      *)
(* stream are part of the event.                                                     *)
EXTENDS Codec, Json, IOUtils, TLC, TLCExt

Shard == JsonDeserialize(IOEnv.TRACE_FILE)
Events == Shard.events
Idx == MkIndex(Shard.hdr.schema.types)
VARIABLE i

RECURSIVE EndOf(_, _)
EndOf(frames, k) == IF k = 0 THEN 0 ELSE EndOf(frames, k - 1) + Len(frames[k])

\* frame k must be  varint(len(payload)) . payload  with payload decoding to the written value
FrameClause(e, k) ==
  LET fr == e.frames[k]  sz == DecVarint(fr, 1) IN
  IF ~sz.ok \/ ~FitsNat(sz.val) THEN "frame_has_no_size_prefix"
  ELSE LET pay == SubSeq(fr, sz.next, Len(fr)) IN
       IF ToNat(sz.val) # Len(pay) THEN "frame_size_prefix_wrong"
       ELSE IF fr # EncVarint(FromNat(Len(pay))) \o pay THEN "frame_size_prefix_not_canonical"
       ELSE LET d == SpecDecode(Idx, e.msgs[k].ty, pay) IN
            IF ~d.ok \/ NormMsg(d.val) # NormMsg(e.msgs[k].val) THEN "frame_payload_value" ELSE "ok"
PayloadOf(fr) == SubSeq(fr, DecVarint(fr, 1).next, Len(fr))

\* reads are judged in order until the first one that raised (afterwards the stream position is unspecified)
RECURSIVE ReadsClause(_, _, _)
ReadsClause(e, k, pos) ==
  IF k > Len(e.reads) THEN "ok"
  ELSE LET r == e.reads[k] IN
    IF k > Len(e.frames)
    THEN (IF r.res = "ok" THEN "read_past_end_returns_a_message" ELSE "ok")
    ELSE LET en == EndOf(e.frames, k)
             want == SpecDecode(Idx, r.ty, PayloadOf(e.frames[k])) IN
      IF en <= e.cut
      THEN (IF r.res # "ok" THEN "intact_frame_not_read_" \o r.res
            ELSE IF NormMsg(r.obs) # NormMsg(want.val) THEN "read_back_value"
            ELSE IF r.tell # en THEN "consumed_wrong_number_of_bytes"
            ELSE ReadsClause(e, k + 1, en))
      ELSE (IF r.res = "ok" /\ NormMsg(r.obs) # NormMsg(want.val) THEN "cut_frame_returned_shortened_message"
            ELSE IF r.res = "ok" THEN "ok"       \* equal to the one written: allowed by the statement
            ELSE "ok")

RECURSIVE FramesClause(_, _)
FramesClause(e, k) == IF k > Len(e.frames) THEN "ok"
                      ELSE LET c == FrameClause(e, k) IN IF c # "ok" THEN c ELSE FramesClause(e, k + 1)
RefClause(e) ==
  IF e.ref_reads_bp # "ok" THEN "reference_cannot_read_framing_" \o e.ref_reads_bp
  ELSE IF e.bp_reads_ref # "ok" THEN "cannot_read_reference_framing_" \o e.bp_reads_ref
  ELSE IF \E k \in 1..Len(e.msgs) : NormMsg(e.ref_obs[k]) # NormMsg(e.msgs[k].val) THEN "reference_reads_other_value"
  ELSE IF \E k \in 1..Len(e.msgs) : NormMsg(e.bp_of_ref_obs[k]) # NormMsg(e.msgs[k].val) THEN "value_from_reference_stream"
  ELSE "ok"
Clause(e) ==
  IF e.res # "ok" THEN "raises_" \o e.res
  ELSE LET f == FramesClause(e, 1) IN
       IF f # "ok" THEN f
       ELSE LET r == ReadsClause(e, 1, 0) IN
            IF r # "ok" THEN r ELSE IF e.withref THEN RefClause(e) ELSE "ok"

Init == i = 1
Next == /\ i <= Len(Events)
        /\ i' = i + 1
        /\ PrintT(<<"V", Events[i].id, Clause(Events[i]), "", "">>)
TraceSpec == Init /\ [][Next]_i
=============================================================================
