------------------------------ MODULE MC_PJson ------------------------------
(* Theorem of the JSON mapping on a pool of messages (POOL_FILE): what the canonical  *)
(* printer writes is accepted by the parser relation, denotes the message it was      *)
(* printed from, and satisfies the printer obligations.                               *)
EXTENDS PJson, Json, IOUtils, TLC, TLCExt

Pool == JsonDeserialize(IOEnv.POOL_FILE)
Idx == MkIndex(Pool.schema.types)
Enums == Pool.schema.enumcp
Msgs == Pool.msgs

VARIABLES mi
Init == mi = 0
Next == mi < Len(Msgs) /\ mi' = mi + 1
Spec == Init /\ [][Next]_mi

Printed == PrintJson(Idx, Enums, Msgs[mi].ty, Msgs[mi].val)
T_PrintedIsAccepted == mi >= 1 => LET a == AcceptJson(Idx, Enums, Msgs[mi].ty, Printed) IN
                                  a.ok /\ ~a.unknown /\ a.val = NormMsg(Msgs[mi].val)
T_PrintedIsCanonical == mi >= 1 => Canonical(Idx, Enums, Msgs[mi].ty, Printed) = ""
=============================================================================
