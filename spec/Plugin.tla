------------------------------- MODULE Plugin -------------------------------
(***************************************************************************)
(* What the protoc plugin's output must be for a schema (translation       *)
(* validity, C03 / C13 / C18): Translate maps the schema - as protoc's own *)
(* front end reports it in the FileDescriptorSet - to the set of classes   *)
(* the generated package must define: one class per message and enum,      *)
(* nested types flattened (Outer.Inner -> OuterInner) in the module of     *)
(* their package, one dataclass field per schema field with its number,    *)
(* proto type, cardinality, map key/value types, oneof group, wrapper /    *)
(* Timestamp / Duration mapping, and a type annotation that *resolves* to  *)
(* the class generated for the referenced type.  Written from the protobuf *)
(* language rules and the documented betterproto mapping, not from the     *)
(* plugin's code.  Option-independent except for the two documented        *)
(* differences of pydantic output (oneof members are Optional).            *)
(***************************************************************************)
EXTENDS Naturals, Sequences, FiniteSets, TLC

RECURSIVE Concat(_)
Concat(ss) == IF ss = <<>> THEN "" ELSE ss[1] \o Concat(Tail(ss))
\* Nested types are flattened: Outer.Inner becomes one class named after the concatenated path.  How the name is cased
\* is C19's subject; classes are identified here by the case-insensitive alphanumeric key of the flattened name (m.key).

PyScalar(ptype) ==
  CASE ptype \in {"int32", "int64", "uint32", "uint64", "sint32", "sint64", "fixed32", "sfixed32", "fixed64", "sfixed64"} -> "int"
    [] ptype \in {"float", "double"} -> "float"
    [] ptype = "bool" -> "bool"
    [] ptype = "string" -> "str"
    [] ptype = "bytes" -> "bytes"
Wrapped(tname) ==
  CASE tname = "google.protobuf.BoolValue" -> "bool" [] tname = "google.protobuf.BytesValue" -> "bytes"
    [] tname = "google.protobuf.DoubleValue" -> "double" [] tname = "google.protobuf.FloatValue" -> "float"
    [] tname = "google.protobuf.Int32Value" -> "int32" [] tname = "google.protobuf.Int64Value" -> "int64"
    [] tname = "google.protobuf.StringValue" -> "string" [] tname = "google.protobuf.UInt32Value" -> "uint32"
    [] tname = "google.protobuf.UInt64Value" -> "uint64" [] OTHER -> ""

\* the class a type name refers to: "<module>:<Class>"; types is the table full name -> [pkg, path]
Target(types, tname, tshort, stdmod) ==
  IF tname \in DOMAIN types THEN types[tname].pkg \o ":" \o types[tname].key
  ELSE stdmod \o ":" \o tshort                      \* bundled google.protobuf classes keep their short name
ElemHint(types, f, ptype, tname, tshort, stdmod) ==
  IF ptype \in {"message", "enum"} THEN
      (IF tname = "google.protobuf.Timestamp" THEN "datetime"
       ELSE IF tname = "google.protobuf.Duration" THEN "timedelta"
       ELSE Target(types, tname, tshort, stdmod))
  ELSE PyScalar(ptype)

ExpField(types, f, pydantic, stdmod) ==
  LET w == IF f.ptype = "message" THEN Wrapped(f.tname) ELSE "" IN
  IF f.ismap THEN
     [num |-> f.num, ptype |-> "map", mapk |-> f.mapkey, mapv |-> f.mapval, group |-> f.oneof, wraps |-> "", optional |-> FALSE,
      hint |-> "dict[" \o PyScalar(f.mapkey) \o "," \o ElemHint(types, f, f.mapval, f.mapvaltname, f.mapvaltshort, stdmod) \o "]"]
  ELSE
     LET elem == IF w # "" THEN "optional[" \o PyScalar(w) \o "]" ELSE ElemHint(types, f, f.ptype, f.tname, f.tshort, stdmod)
         opt == f.opt3 \/ (pydantic /\ f.oneof # "")
         h == IF f.repeated THEN "list[" \o elem \o "]"
              ELSE IF opt /\ w = "" THEN "optional[" \o elem \o "]" ELSE elem
     IN [num |-> f.num, ptype |-> f.ptype, mapk |-> "", mapv |-> "", group |-> f.oneof, wraps |-> w, optional |-> opt, hint |-> h]

TypeTable(prog) ==
  LET ms == { prog.msgs[j] : j \in 1..Len(prog.msgs) }  es == { prog.enums[j] : j \in 1..Len(prog.enums) } IN
  [n \in { m.full : m \in ms } \cup { e.full : e \in es } |->
     IF \E m \in ms : m.full = n THEN LET m == CHOOSE x \in ms : x.full = n IN [pkg |-> m.pkg, path |-> m.path, key |-> m.key]
     ELSE LET e == CHOOSE x \in es : x.full = n IN [pkg |-> e.pkg, path |-> e.path, key |-> e.key]]

SeqSet(s) == { s[j] : j \in 1..Len(s) }
ExpectedMessages(prog, pydantic, stdmod) ==
  LET types == TypeTable(prog) IN
  { [mod |-> m.pkg, cls |-> m.key, fields |-> { ExpField(types, m.fields[j], pydantic, stdmod) : j \in 1..Len(m.fields) }]
    : m \in SeqSet(prog.msgs) }
ExpectedEnums(prog) ==
  { [mod |-> e.pkg, cls |-> e.key, numbers |-> [j \in 1..Len(e.values) |-> e.values[j][2]]] : e \in SeqSet(prog.enums) }

\* one handler per rpc in the server base class, registered under the route of that rpc with its cardinality and the
\* classes generated for its request / response types
CardName(cs, ss) == IF cs /\ ss THEN "STREAM_STREAM" ELSE IF cs THEN "STREAM_UNARY" ELSE IF ss THEN "UNARY_STREAM" ELSE "UNARY_UNARY"
ExpectedRoutes(prog, stdmod) ==
  LET types == TypeTable(prog) IN
  UNION { { [mod |-> sv.pkg, route |-> "/" \o (IF sv.pkg = "" THEN "" ELSE sv.pkg \o ".") \o sv.name \o "/" \o sv.methods[j].name,
             card |-> CardName(sv.methods[j].cs, sv.methods[j].ss),
             req |-> Target(types, sv.methods[j].in, sv.methods[j].inshort, stdmod),
             rep |-> Target(types, sv.methods[j].out, sv.methods[j].outshort, stdmod)] : j \in 1..Len(sv.methods) }
          : sv \in SeqSet(prog.services) }
ObservedRoutes(obs) == SeqSet(obs.routes)
ObservedMessages(obs) == { [mod |-> c.mod, cls |-> c.cls, fields |-> SeqSet(c.fields)] : c \in SeqSet(obs.messages) }
ObservedEnums(obs) == { [mod |-> c.mod, cls |-> c.cls, numbers |-> c.numbers] : c \in SeqSet(obs.enums) }

\* a map whose value type is a google wrapper: the plugin annotates the unwrapped scalar but keeps TYPE_MESSAGE metadata
MapOfWrapper(prog, mod, clskey, num) ==
  \E m \in SeqSet(prog.msgs) : m.pkg = mod /\ m.key = clskey /\
     \E j \in 1..Len(m.fields) : m.fields[j].num = num /\ m.fields[j].ismap /\ Wrapped(m.fields[j].mapvaltname) # ""
\* a wrapper-typed field in a class that also has a field named like the wrapper's Python scalar type (str, bytes, int ...)
WrapperShadowed(prog, mod, clskey, x) ==
  x.wraps # "" /\ \E m \in SeqSet(prog.msgs) : m.pkg = mod /\ m.key = clskey /\
     \E j \in 1..Len(m.fields) : m.fields[j].name = PyScalar(x.wraps)
\* two different packages whose '_'-joined paths coincide (x.a.b and x.a_b): their import aliases collide in a module
\* that refers to both
RECURSIVE JoinU(_)
JoinU(p) == IF p = <<>> THEN "" ELSE IF Len(p) = 1 THEN p[1] ELSE p[1] \o "_" \o JoinU(Tail(p))
AliasCollisionInput(prog) == \E a, b \in SeqSet(prog.pkgpaths) : a # b /\ JoinU(a) = JoinU(b)
\* two schema types that flatten to one class name in one module: the design cannot represent both (ClassNamesInjective)
ClassNameClash(prog) ==
  LET all == [j \in 1..(Len(prog.msgs) + Len(prog.enums)) |->
                 IF j <= Len(prog.msgs) THEN <<prog.msgs[j].pkg, prog.msgs[j].key>>
                 ELSE <<prog.enums[j - Len(prog.msgs)].pkg, prog.enums[j - Len(prog.msgs)].key>>] IN
  \E a, b \in 1..Len(all) : a # b /\ all[a] = all[b]
=============================================================================
