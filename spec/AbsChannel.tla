----------------------------- MODULE AbsChannel -----------------------------
(***************************************************************************)
(* The channel as its users see it (the property C12, independent of how   *)
(* AsyncChannel is implemented).  State: what each sender offered, which   *)
(* sends completed before close, what was received (global order), which   *)
(* tasks are inside a receive, which were cancelled.  Step(st, e) consumes *)
(* one logged event of a real execution and returns the next state with    *)
(* the name of the first violated clause ("" if none).                     *)
(***************************************************************************)
EXTENDS Naturals, Sequences, FiniteSets, TLC

InitAbs(tasks) ==
  [ offered   |-> [t \in tasks |-> <<>>],     \* per task: items offered so far (call order)
    rejected  |-> {},                          \* items whose send raised ChannelClosed
    completed |-> {},                          \* items whose send returned while the channel was open
    received  |-> <<>>,                        \* global receive order
    inrecv    |-> {},                          \* tasks inside receive()/__anext__
    pending   |-> [t \in tasks |-> [op |-> "none"]],
    cancelled |-> {},                          \* tasks cancelled while inside a receive
    closed    |-> FALSE,                       \* closed() as last observed
    closeSeen |-> FALSE,                       \* a close() call, or a send_from(close=True) return, was logged
    bad       |-> "" ]

SeqSet(q) == { q[k] : k \in 1..Len(q) }
Offered(st) == UNION { SeqSet(st.offered[t]) : t \in DOMAIN st.offered }
Owner(st, x) == CHOOSE t \in DOMAIN st.offered : x \in SeqSet(st.offered[t])
IndexIn(q, x) == CHOOSE k \in 1..Len(q) : q[k] = x
Fail(st, c) == IF st.bad = "" THEN [st EXCEPT !.bad = c] ELSE st
Terminal == {"None", "ChannelDone", "StopIter"}
RecvOps == {"recv", "next"}

\* call of an operation; e.closed / e.done are closed() / done() read immediately before the call
Call(st, e) ==
  LET st1 == [st EXCEPT !.closed = e.closed, !.pending[e.t] = [op |-> e.op, closedAtCall |-> e.closed, items |-> e.items, close |-> e.close, timed |-> e.timed],
                         !.closeSeen = (@ \/ e.op = "close")]
  IN CASE e.op \in {"send", "sendfrom"} -> [st1 EXCEPT !.offered[e.t] = @ \o e.items]
       [] e.op \in RecvOps -> [st1 EXCEPT !.inrecv = @ \cup {e.t}]
       [] OTHER -> st1

Ret(st, e) ==
  LET p == st.pending[e.t]
      st1 == [st EXCEPT !.closed = e.closed, !.pending[e.t] = [op |-> "none"], !.inrecv = @ \ {e.t}]
  IN
  IF p.op \in {"send", "sendfrom"} THEN
       IF p.closedAtCall
       THEN (IF e.r = "ChannelClosed" THEN [st1 EXCEPT !.rejected = @ \cup SeqSet(p.items)]
             ELSE Fail(st1, "send_after_close_not_rejected"))
       ELSE IF e.r = "ok" /\ p.close /\ ~e.closed THEN Fail(st1, "send_from_close_did_not_close")     \* (whatever the source held, an empty one too)
       ELSE IF e.r = "ok" THEN
            \* "completed before the channel was closed": still open at return, or closed by this very send_from(close=True)
            [st1 EXCEPT !.completed = @ \cup (IF ~e.closed \/ (p.close /\ ~st.closeSeen) THEN SeqSet(p.items) ELSE {}),
                        !.closeSeen = (@ \/ p.close)]
       ELSE IF e.r = "ChannelClosed" THEN Fail(st1, "send_rejected_on_open_channel")
       ELSE Fail(st1, "send_raised_" \o e.r)
  ELSE IF p.op \in RecvOps THEN
       IF e.t \in st.cancelled
       THEN (IF e.r \in {"Cancelled", "Timeout"} THEN st1 ELSE Fail(st1, "cancel_surfaces_as_" \o e.r))
       ELSE IF e.r = "Cancelled" /\ e.unlogged_cancel THEN st1  \* traces of the repository's own tests: task.cancel() calls are not logged
       ELSE IF e.r = "Timeout" /\ p.timed THEN st1            \* wait_for(receive(), t) timed out: surfaces as such
       ELSE IF e.r = "item" THEN
            LET x == e.v IN
            IF x \notin Offered(st) THEN Fail(st1, "invented_item")
            ELSE IF x \in SeqSet(st.received) THEN Fail(st1, "duplicate_item")
            ELSE LET own == Owner(st, x)  q == st.offered[own]  k == IndexIn(q, x) IN
                 IF \E j \in 1..(k - 1) : q[j] \notin st.rejected /\ q[j] \notin SeqSet(st.received)
                 THEN Fail(st1, "per_sender_order")
                 ELSE [st1 EXCEPT !.received = Append(@, x)]
       ELSE IF e.r \in Terminal THEN
            (IF ~e.closed THEN Fail(st1, "terminal_result_on_open_channel")
             ELSE IF e.r = "None" /\ p.op # "recv" THEN Fail(st1, "wrong_terminal_kind")
             ELSE IF e.r = "StopIter" /\ p.op # "next" THEN Fail(st1, "wrong_terminal_kind")
             ELSE st1)
       ELSE Fail(st1, "receive_raised_" \o e.r)
  ELSE IF p.op = "close" THEN (IF e.closed THEN st1 ELSE Fail(st1, "close_did_not_close"))
  ELSE st1

Cancel(st, e) == IF e.t \in st.inrecv THEN [st EXCEPT !.cancelled = @ \cup {e.t}] ELSE st
\* an item yielded by the (async) source of a send_from in progress
Offer(st, e) == [st EXCEPT !.offered[e.t] = @ \o e.items, !.closed = e.closed,
                           !.pending[e.t] = IF @.op = "sendfrom" THEN [@ EXCEPT !.items = @ \o e.items] ELSE @]

\* end of the program: every gate released, the loop drained.  e.blocked = tasks still pending, e.loopers =
\* receivers that keep receiving until the channel is done, e.finished = tasks that ran to completion.
\* Without any cancellation the program's own receivers must have got everything sent before close.
PreDrain(st, e) ==
  IF ~e.closed THEN st
  ELSE IF \E t \in SeqSet(e.blocked) : t \in st.inrecv THEN Fail(st, "stranded_receiver")
  ELSE IF st.cancelled = {} /\ ~e.anycancel /\ (\E t \in SeqSet(e.loopers) : t \in SeqSet(e.finished))
          /\ ~(st.completed \subseteq SeqSet(st.received))
       THEN Fail(st, "item_undelivered")
  ELSE st
\* after PreDrain the harness lets one more task receive until the channel is done (the channel must still be
\* usable); then nothing sent before close may be missing, cancellation or not
Quiesce(st, e) ==
  IF ~e.closed THEN st
  ELSE IF \E t \in SeqSet(e.blocked) : t \in st.inrecv THEN Fail(st, "stranded_receiver_after_drain")
  ELSE IF ~(st.completed \subseteq SeqSet(st.received)) THEN Fail(st, "item_lost")
  ELSE st

Step(st, e) ==
  CASE e.ev = "call" -> Call(st, e)
    [] e.ev = "ret" -> Ret(st, e)
    [] e.ev = "cancel" -> Cancel(st, e)
    [] e.ev = "offer" -> Offer(st, e)
    [] e.ev = "predrain" -> PreDrain(st, e)
    [] e.ev = "quiesce" -> Quiesce(st, e)
=============================================================================
