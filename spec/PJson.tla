-------------------------------- MODULE PJson --------------------------------
(***************************************************************************)
(* The proto3 JSON mapping.  A JSON text is given as its parse tree (the    *)
(* lexical level - json.loads - is trusted transport; numerals come with   *)
(* their integer value / IEEE bits).  AcceptJson is the relation "this     *)
(* tree denotes that message" a conforming parser implements (json name or *)
(* original name as key, 64-bit integers as string or number, enum as name *)
(* or number, base64 in either alphabet, ...); Canonical lists what a      *)
(* conforming *printer* must additionally satisfy.  Written from the       *)
(* language guide's JSON mapping table, not from betterproto's code.       *)
(***************************************************************************)
EXTENDS Codec

(* ---- names ---- *)
Upper(c) == IF c >= 97 /\ c <= 122 THEN c - 32 ELSE c
RECURSIVE JsonNameFrom(_, _, _)
JsonNameFrom(s, p, up) == IF p > Len(s) THEN <<>>
                          ELSE IF s[p] = 95 THEN JsonNameFrom(s, p + 1, TRUE)
                          ELSE <<IF up THEN Upper(s[p]) ELSE s[p]>> \o JsonNameFrom(s, p + 1, FALSE)
JsonName(ncp) == JsonNameFrom(ncp, 1, FALSE)

FieldForKey(idx, ty, key) ==
  LET fs == idx[ty].fields
      hits == { j \in DOMAIN fs : fs[j].ncp = key \/ JsonName(fs[j].ncp) = key } IN
  IF hits = {} THEN 0 ELSE CHOOSE j \in hits : TRUE

(* ---- scalars ---- *)
Bad == [ok |-> FALSE, v |-> Unset]
Good(v) == [ok |-> TRUE, v |-> v]
IntNode(node) ==          \* the integer a JSON value denotes, if any: [ok, n]
  CASE node.t = "num" -> (IF node.isint THEN [ok |-> TRUE, n |-> MkInt(node.n.neg, node.n.mag)]
                          ELSE IF node.fint.ok THEN [ok |-> TRUE, n |-> MkInt(node.fint.n.neg, node.fint.n.mag)]
                          ELSE [ok |-> FALSE, n |-> Zero])
    [] node.t = "str" -> (LET p == ParseDec(node.cp) IN [ok |-> p.ok, n |-> p.n])
    [] OTHER -> [ok |-> FALSE, n |-> Zero]
NaNStr == <<78, 97, 78>>
InfStr == <<73, 110, 102, 105, 110, 105, 116, 121>>
NegInfStr == <<45>> \o InfStr
EnumNumber(enums, ename, cp) ==
  LET ms == enums[ename]
      hits == { j \in DOMAIN ms : ms[j].name = cp } IN
  IF hits = {} THEN [ok |-> FALSE, n |-> Zero]
  ELSE LET j == CHOOSE x \in hits : \A y \in hits : x <= y IN [ok |-> TRUE, n |-> MkInt(ms[j].num.neg, ms[j].num.mag)]
EnumNameOf(enums, ename, n) ==
  LET ms == enums[ename]
      hits == { j \in DOMAIN ms : MkInt(ms[j].num.neg, ms[j].num.mag) = n } IN
  IF hits = {} THEN <<>> ELSE ms[CHOOSE x \in hits : \A y \in hits : x <= y].name

ScalarOfNode(enums, f, kind, node) ==
  CASE kind \in IntKinds \ {"enum"} ->
         (LET i == IntNode(node) IN IF i.ok /\ InRange(kind, i.n) THEN Good(KInt(i.n)) ELSE Bad)
    [] kind = "enum" ->
         (IF node.t = "str" THEN (LET e == EnumNumber(enums, f.enum, node.cp) IN IF e.ok THEN Good(KInt(e.n)) ELSE Bad)
          ELSE LET i == IntNode(node) IN IF node.t = "num" /\ i.ok /\ FitsSigned(i.n, 32) THEN Good(KInt(i.n)) ELSE Bad)
    [] kind = "bool" -> (IF node.t = "bool" THEN Good([k |-> "bool", v |-> node.v]) ELSE Bad)
    [] kind \in {"float", "double"} ->
         (LET tag == IF kind = "float" THEN "f32" ELSE "f64" IN
          IF node.t = "num" THEN (IF kind = "float" /\ ~node.f32ok THEN Bad
                                  ELSE Good([k |-> tag, b |-> IF kind = "float" THEN node.f32 ELSE node.f64]))
          ELSE IF node.t = "str" THEN
               (IF node.cp = NaNStr THEN Good([k |-> tag, b |-> IF kind = "float" THEN <<0, 0, 192, 127>> ELSE <<0, 0, 0, 0, 0, 0, 248, 127>>])
                ELSE IF node.cp = InfStr THEN Good([k |-> tag, b |-> IF kind = "float" THEN <<0, 0, 128, 127>> ELSE <<0, 0, 0, 0, 0, 0, 240, 127>>])
                ELSE IF node.cp = NegInfStr THEN Good([k |-> tag, b |-> IF kind = "float" THEN <<0, 0, 128, 255>> ELSE <<0, 0, 0, 0, 0, 0, 240, 255>>])
                ELSE IF node.strnum.ok THEN Good([k |-> tag, b |-> IF kind = "float" THEN node.strnum.f32 ELSE node.strnum.f64])
                ELSE Bad)
          ELSE Bad)
    [] kind = "string" -> (IF node.t = "str" THEN Good([k |-> "str", u |-> Utf8(node.cp)]) ELSE Bad)
    [] kind = "bytes" -> (IF node.t = "str" THEN (LET d == Base64Decode(node.cp) IN IF d.ok THEN Good([k |-> "bytes", b |-> d.b]) ELSE Bad) ELSE Bad)

\* map keys are JSON strings
KeyOfString(kkind, cp) ==
  CASE kkind = "string" -> Good([k |-> "str", u |-> Utf8(cp)])
    [] kkind = "bool" -> (IF cp = <<116, 114, 117, 101>> THEN Good([k |-> "bool", v |-> TRUE])
                          ELSE IF cp = <<102, 97, 108, 115, 101>> THEN Good([k |-> "bool", v |-> FALSE]) ELSE Bad)
    [] OTHER -> (LET p == ParseDec(cp) IN IF p.ok /\ InRange(kkind, p.n) THEN Good(KInt(p.n)) ELSE Bad)

RECURSIVE AcceptMsg(_, _, _, _), SingleOfNode(_, _, _, _, _), AcceptKVs(_, _, _, _, _), ListOfNodes(_, _, _, _, _, _), MapOfKVs(_, _, _, _, _)

SingleOfNode(idx, enums, f, kind, node) ==
  CASE kind = "message" -> (IF node.t # "obj" THEN Bad
                            ELSE LET m == AcceptMsg(idx, enums, f.msg, node) IN IF m.ok THEN Good([k |-> "msg", m |-> m.val]) ELSE Bad)
    [] kind = "timestamp" -> (IF node.t # "str" THEN Bad
                              ELSE LET p == ParseRfc3339(node.cp) IN IF p.ok THEN Good([k |-> "tsn", s |-> p.v.s, n |-> p.v.n]) ELSE Bad)
    [] kind = "duration" -> (IF node.t # "str" THEN Bad
                             ELSE LET p == ParseDurText(node.cp) IN IF p.ok THEN Good([k |-> "durn", s |-> p.v.s, n |-> p.v.n]) ELSE Bad)
    [] kind = "wrap" -> (LET s == ScalarOfNode(enums, f, f.vkind, node) IN IF s.ok THEN Good([k |-> "wrapv", v |-> s.v]) ELSE Bad)
    [] OTHER -> ScalarOfNode(enums, f, kind, node)

ListOfNodes(idx, enums, f, xs, j, acc) ==
  IF j > Len(xs) THEN Good([k |-> "list", xs |-> acc])
  ELSE LET s == SingleOfNode(idx, enums, f, f.kind, xs[j]) IN
       IF ~s.ok THEN Bad ELSE ListOfNodes(idx, enums, f, xs, j + 1, Append(acc, s.v))
MapOfKVs(idx, enums, f, kvs, acc) ==
  IF kvs = <<>> THEN Good(acc)
  ELSE LET key == KeyOfString(f.kkind, kvs[1][1])
           val == SingleOfNode(idx, enums, f, f.vkind, kvs[1][2]) IN
       IF ~key.ok \/ ~val.ok THEN Bad ELSE MapOfKVs(idx, enums, f, Tail(kvs), MapPut(acc, key.v, val.v))

\* st: [ok, val, unknown keys seen]
AcceptKVs(idx, enums, ty, kvs, st) ==
  IF kvs = <<>> \/ ~st.ok THEN st
  ELSE LET key == kvs[1][1]  node == kvs[1][2]  j == FieldForKey(idx, ty, key) IN
    IF j = 0 THEN AcceptKVs(idx, enums, ty, Tail(kvs), [st EXCEPT !.unknown = TRUE])
    ELSE LET f == idx[ty].fields[j] IN
      IF node.t = "null" THEN AcceptKVs(idx, enums, ty, Tail(kvs), st)             \* null = absent
      ELSE LET r == IF f.card = "repeated" THEN (IF node.t = "arr" THEN ListOfNodes(idx, enums, f, node.xs, 1, <<>>) ELSE Bad)
                    ELSE IF f.card = "map" THEN (IF node.t = "obj" THEN MapOfKVs(idx, enums, f, node.kv, EmptyMap) ELSE Bad)
                    ELSE SingleOfNode(idx, enums, f, f.kind, node) IN
           IF ~r.ok THEN [st EXCEPT !.ok = FALSE, !.err = f.name]
           ELSE AcceptKVs(idx, enums, ty, Tail(kvs), SetField(idx, ty, st, f, Norm(r.v)))
AcceptMsg(idx, enums, ty, node) ==
  AcceptKVs(idx, enums, ty, node.kv, [ok |-> TRUE, err |-> "", val |-> NormMsg(idx[ty].fresh), unknown |-> FALSE])
AcceptJson(idx, enums, ty, node) == IF node.t # "obj" THEN [ok |-> FALSE, err |-> "not_an_object", val |-> <<>>, unknown |-> FALSE]
                                    ELSE AcceptMsg(idx, enums, ty, node)

(* ---- what a conforming printer additionally guarantees; returns "" or the name of the broken rule ---- *)
RECURSIVE CanonMsg(_, _, _, _, _), CanonSingle(_, _, _, _, _), CanonKVs(_, _, _, _, _), CanonList(_, _, _, _, _)
Int64Kinds == {"int64", "uint64", "sint64", "fixed64", "sfixed64"}
CanonScalar(enums, f, kind, node) ==
  CASE kind \in Int64Kinds -> (IF node.t = "str" /\ ParseDec(node.cp).ok /\ Dec(ParseDec(node.cp).n) = node.cp THEN "" ELSE "int64_not_a_decimal_string")
    [] kind \in (IntKinds \ Int64Kinds) \ {"enum"} -> (IF node.t = "num" /\ node.isint THEN "" ELSE "int32_not_a_number")
    [] kind = "enum" -> (IF node.t = "str" THEN ""
                         ELSE IF node.t = "num" /\ node.isint /\ EnumNameOf(enums, f.enum, MkInt(node.n.neg, node.n.mag)) = <<>> THEN ""
                         ELSE "listed_enum_value_not_by_name")
    [] kind = "bool" -> (IF node.t = "bool" THEN "" ELSE "bool_not_a_boolean")
    [] kind \in {"float", "double"} -> (IF node.t = "num" THEN ""
                                         ELSE IF node.t = "str" /\ node.cp \in {NaNStr, InfStr, NegInfStr} THEN "" ELSE "float_form")
    [] kind = "string" -> (IF node.t = "str" THEN "" ELSE "string_form")
    [] kind = "bytes" -> (IF node.t = "str" /\ Base64Decode(node.cp).ok /\ Base64(Base64Decode(node.cp).b) = node.cp THEN ""
                          ELSE "bytes_not_standard_base64_with_padding")
CanonSingle(idx, enums, f, kind, node) ==
  CASE kind = "message" -> (IF node.t = "obj" THEN CanonMsg(idx, enums, f.msg, node, TRUE) ELSE "message_not_an_object")
    [] kind = "timestamp" -> (IF node.t = "str" /\ ParseRfc3339(node.cp).ok /\ node.cp[Len(node.cp)] = 90 /\ Len(node.cp) \in {20, 24, 27, 30}
                              THEN "" ELSE "timestamp_not_rfc3339_utc")
    [] kind = "duration" -> (IF node.t = "str" /\ ParseDurText(node.cp).ok /\ (\A k \in 1..Len(node.cp) : node.cp[k] \in (48..57) \cup {45, 46, 115})
                             THEN "" ELSE "duration_not_decimal_seconds")
    [] kind = "wrap" -> CanonScalar(enums, f, f.vkind, node)
    [] OTHER -> CanonScalar(enums, f, kind, node)
CanonList(idx, enums, f, xs, j) == IF j > Len(xs) THEN ""
                                   ELSE LET c == CanonSingle(idx, enums, f, f.kind, xs[j]) IN IF c # "" THEN c ELSE CanonList(idx, enums, f, xs, j + 1)
RECURSIVE CanonMapVals(_, _, _, _)
CanonMapVals(idx, enums, f, kvs) == IF kvs = <<>> THEN ""
                                    ELSE LET c == CanonSingle(idx, enums, f, f.vkind, kvs[1][2]) IN
                                         IF c # "" THEN c ELSE CanonMapVals(idx, enums, f, Tail(kvs))
CanonKVs(idx, enums, ty, kvs, camel) ==
  IF kvs = <<>> THEN ""
  ELSE LET key == kvs[1][1]  node == kvs[1][2]  j == FieldForKey(idx, ty, key) IN
    IF j = 0 THEN "key_of_no_field"
    ELSE LET f == idx[ty].fields[j] IN
      IF camel /\ key # JsonName(f.ncp) THEN "key_not_lower_camel_json_name"
      ELSE LET c == IF node.t = "null" THEN ""
                    ELSE IF f.card = "repeated" THEN (IF node.t = "arr" THEN CanonList(idx, enums, f, node.xs, 1) ELSE "repeated_not_an_array")
                    ELSE IF f.card = "map" THEN (IF node.t = "obj" THEN CanonMapVals(idx, enums, f, node.kv) ELSE "map_not_an_object")
                    ELSE CanonSingle(idx, enums, f, f.kind, node) IN
           IF c # "" THEN c ELSE CanonKVs(idx, enums, ty, Tail(kvs), camel)
CanonMsg(idx, enums, ty, node, camel) == CanonKVs(idx, enums, ty, node.kv, camel)
Canonical(idx, enums, ty, node) == CanonMsg(idx, enums, ty, node, TRUE)

(* ---- the canonical printer (values in abstract form: ints [k,neg,mag], text as code points, times in us) ---- *)
StrNode(cp) == [t |-> "str", cp |-> cp, strnum |-> [ok |-> FALSE, f32 |-> <<0, 0, 0, 0>>, f64 |-> <<0, 0, 0, 0, 0, 0, 0, 0>>]]
IntNumNode(n) == [t |-> "num", isint |-> TRUE, n |-> n, fint |-> [ok |-> FALSE, n |-> Zero], f64 |-> <<>>, f32 |-> <<>>, f32ok |-> FALSE]
FloatNode(kind, b) ==
  LET n32 == kind = "float" IN
  IF (n32 /\ IsNaN32(b)) \/ (~n32 /\ IsNaN64(b)) THEN StrNode(NaNStr)
  ELSE IF b = (IF n32 THEN <<0, 0, 128, 127>> ELSE <<0, 0, 0, 0, 0, 0, 240, 127>>) THEN StrNode(InfStr)
  ELSE IF b = (IF n32 THEN <<0, 0, 128, 255>> ELSE <<0, 0, 0, 0, 0, 0, 240, 255>>) THEN StrNode(NegInfStr)
  ELSE [t |-> "num", isint |-> FALSE, n |-> Zero, fint |-> [ok |-> FALSE, n |-> Zero],
        f64 |-> IF n32 THEN <<>> ELSE b, f32 |-> IF n32 THEN b ELSE <<>>, f32ok |-> n32]
PrintScalar(enums, f, kind, v) ==
  CASE kind \in Int64Kinds -> StrNode(Dec(IntOfV(v)))
    [] kind \in (IntKinds \ Int64Kinds) \ {"enum"} -> IntNumNode(IntOfV(v))
    [] kind = "enum" -> (LET nm == EnumNameOf(enums, f.enum, IntOfV(v)) IN IF nm = <<>> THEN IntNumNode(IntOfV(v)) ELSE StrNode(nm))
    [] kind = "bool" -> [t |-> "bool", v |-> v.v]
    [] kind \in {"float", "double"} -> FloatNode(kind, v.b)
    [] kind = "string" -> StrNode(v.cp)
    [] kind = "bytes" -> StrNode(Base64(v.b))
KeyString(kkind, k) ==
  CASE kkind = "string" -> k.cp
    [] kkind = "bool" -> (IF k.v THEN <<116, 114, 117, 101>> ELSE <<102, 97, 108, 115, 101>>)
    [] OTHER -> Dec(IntOfV(k))
RECURSIVE PrintMsg(_, _, _, _), PrintSingle(_, _, _, _, _), PrintFields(_, _, _, _, _)
PrintSingle(idx, enums, f, kind, v) ==
  CASE kind = "message" -> PrintMsg(idx, enums, f.msg, v.m)
    [] kind = "timestamp" -> StrNode(Rfc3339(TsOfMicros(MkInt(v.us.neg, v.us.mag))))
    [] kind = "duration" -> StrNode(DurText(DurOfMicros(MkInt(v.us.neg, v.us.mag))))
    [] kind = "wrap" -> PrintScalar(enums, f, f.vkind, v.v)
    [] OTHER -> PrintScalar(enums, f, kind, v)
PrintFields(idx, enums, fs, val, j) ==
  IF j > Len(fs) THEN <<>>
  ELSE LET f == fs[j]  v == val[f.name] IN
       (IF ~Emits(f, v) THEN <<>>
        ELSE << <<JsonName(f.ncp),
                  IF f.card = "repeated" THEN [t |-> "arr", xs |-> [i \in 1..Len(v.xs) |-> PrintSingle(idx, enums, f, f.kind, v.xs[i])]]
                  ELSE IF f.card = "map" THEN [t |-> "obj", kv |-> [i \in 1..Len(v.es) |-> <<KeyString(f.kkind, v.es[i][1]),
                                                                                         PrintSingle(idx, enums, f, f.vkind, v.es[i][2])>>]]
                  ELSE PrintSingle(idx, enums, f, f.kind, v)>> >>)
       \o PrintFields(idx, enums, fs, val, j + 1)
PrintMsg(idx, enums, ty, val) == [t |-> "obj", kv |-> PrintFields(idx, enums, idx[ty].fields, val, 1)]
PrintJson(idx, enums, ty, val) == PrintMsg(idx, enums, ty, val)
=============================================================================
