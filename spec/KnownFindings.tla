--------------------------- MODULE KnownFindings ---------------------------
(* Predicates naming the genuine defects that are recorded (known_findings.txt)     *)
(* rather than repaired.  Each is over the *input / call site* of a failing case,   *)
(* as narrow as the defect, so that a different violation of the same property is   *)
(* still reported.  KF(e, clause) returns the id of the matching predicate or "".   *)
EXTENDS Naturals, Sequences

KF(e, clause) == ""

\* C05: JSON keys are derived from the *Python* field name (snake_case of the proto name, then lowerCamel).  For a proto
\* field name with adjacent capitals (HTTPStatus -> http_status -> "httpStatus") this is not protoc's json_name
\* ("HTTPStatus"), so the reference does not find the field.  Input: a message type with such a field holding a value.
IsCap(c) == c >= 65 /\ c <= 90
HasAdjacentCapitals(ncp) == \E k \in 1..(Len(ncp) - 1) : IsCap(ncp[k]) /\ IsCap(ncp[k + 1])
KF_C05_AcronymFieldName(fields, val) ==
  \E j \in DOMAIN fields : HasAdjacentCapitals(fields[j].ncp) /\ val[fields[j].name].k # "unset"

\* ---- C19 ----
\* words of a snake_case name (split at '_', empty pieces dropped)
RECURSIVE SplitAt(_, _, _, _)
SplitAt(s, p, cur, acc) ==
  IF p > Len(s) THEN (IF cur = <<>> THEN acc ELSE Append(acc, cur))
  ELSE IF s[p] = 95 THEN SplitAt(s, p + 1, <<>>, IF cur = <<>> THEN acc ELSE Append(acc, cur))
  ELSE SplitAt(s, p + 1, Append(cur, s[p]), acc)
Words(s) == SplitAt(s, 1, <<>>, <<>>)
IsDig(c) == c >= 48 /\ c <= 57
IsLow(c) == c >= 97 /\ c <= 122
IsAlpha(c) == IsLow(c) \/ IsCap(c)
\* The camelCase JSON key of a field loses a word boundary, so from_dict maps it to another (non-existent) field and the
\* value is silently dropped: (a) a word after the first starts with a digit (address_line_1 -> addressLine1 -> address_line1),
\* or (b) a one-letter word after the first is followed by a word that is one letter or has no lower-case second character
\* (x_y_z -> xYZ -> x_yz).  Input: the Python field name.
KF_C19_CamelKeyLosesWordBoundary(py) ==
  LET ws == Words(py) IN
  \/ \E k \in 2..Len(ws) : IsDig(ws[k][1])
  \/ \E k \in 2..(Len(ws) - 1) : Len(ws[k]) = 1 /\ IsAlpha(ws[k][1]) /\ IsAlpha(ws[k + 1][1])
                                  /\ (Len(ws[k + 1]) = 1 \/ ~IsLow(ws[k + 1][2]))
\* A proto field whose Python name is the name of a public method / attribute of betterproto.Message (to_dict, parse, load ...)
\* replaces that method on the generated class, so the class cannot be converted or parsed.  Input: the Python field name.
KF_C19_FieldShadowsMessageMethod(py, attrs) == \E k \in 1..Len(attrs) : attrs[k] = py
\* pascal_case is not idempotent on a class name with a run of capitals (acronyms, adjacent one-letter words):
\* a_b -> AB -> Ab.  Input: the class name; a run of >= 2 capitals not followed by a lower-case letter, or of >= 3 capitals.
RECURSIVE CapRunEnd(_, _)
CapRunEnd(s, p) == IF p <= Len(s) /\ IsCap(s[p]) THEN CapRunEnd(s, p + 1) ELSE p
KF_C19_PascalNotIdempotentOnCapitalRuns(c) ==
  \E p \in 1..Len(c) : IsCap(c[p]) /\ (p = 1 \/ ~IsCap(c[p - 1])) /\
     LET e == CapRunEnd(c, p)  n == e - p IN
     (n >= 2 /\ ~(e <= Len(c) /\ IsLow(c[e]))) \/ n >= 3
=============================================================================
