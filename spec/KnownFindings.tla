--------------------------- MODULE KnownFindings ---------------------------
(* Predicates naming the genuine defects that are recorded (known_findings.txt)     *)
(* rather than repaired.  Each is over the *input / call site* of a failing case,   *)
(* as narrow as the defect, so that a different violation of the same property is   *)
(* still reported.  KF(e, clause) returns the id of the matching predicate or "".   *)
EXTENDS Naturals, Sequences

KF(e, clause) == ""

\* C05: JSON keys are derived from the *Python* field name (snake_case of the proto name, then lowerCamel).  For a proto
\* field name with adjacent capitals (HTTPStatus -> http_status -> "httpStatus") this is not protoc's json_name
\* ("HTTPStatus"), so the reference does not find the field.  Input: a message type with such a field holding a value.
IsCap(c) == c >= 65 /\ c <= 90
HasAdjacentCapitals(ncp) == \E k \in 1..(Len(ncp) - 1) : IsCap(ncp[k]) /\ IsCap(ncp[k + 1])
KF_C05_AcronymFieldName(fields, val) ==
  \E j \in DOMAIN fields : HasAdjacentCapitals(fields[j].ncp) /\ val[fields[j].name].k # "unset"
=============================================================================
