--------------------------- MODULE KnownFindings ---------------------------
(* Predicates naming the genuine defects that are recorded (known_findings.txt)     *)
(* rather than repaired.  Each is over the *input / call site* of a failing case,   *)
(* as narrow as the defect, so that a different violation of the same property is   *)
(* still reported.  KF(e, clause) returns the id of the matching predicate or "".   *)
EXTENDS Naturals, Sequences

KF(e, clause) == ""
=============================================================================
