"""A minimal event loop that runs *real* asyncio.Task / Future / Queue objects one ready
handle at a time (FIFO, like BaseEventLoop._run_once), plus the harness 'World' that drives
betterproto's real AsyncChannel along environment actions Wake(t) / RunHead / Cancel(t) and
logs one event per public call (call / ret / cancel / quiesce)."""
import asyncio
import collections
import heapq
from asyncio import events


class StepLoop(asyncio.AbstractEventLoop):
    def __init__(self):
        self._ready = collections.deque()
        self._now = 0.0
        self._timers = []
        self._n = 0
        self.exc = []

    def get_debug(self):
        return False

    def time(self):
        return self._now

    def call_soon(self, cb, *args, context=None):
        h = asyncio.Handle(cb, args, self, context)
        self._ready.append(h)
        return h

    def call_at(self, when, cb, *args, context=None):
        h = asyncio.TimerHandle(when, cb, args, self, context)
        self._n += 1
        heapq.heappush(self._timers, (when, self._n, h))
        return h

    def call_later(self, d, cb, *args, context=None):
        return self.call_at(self._now + d, cb, *args, context=context)

    def _timer_handle_cancelled(self, h):
        pass

    def create_future(self):
        return asyncio.Future(loop=self)

    def create_task(self, coro, *, name=None, context=None):
        return asyncio.Task(coro, loop=self, name=name, context=context)

    def call_exception_handler(self, ctx):
        self.exc.append(ctx)

    def is_running(self):
        return True

    def is_closed(self):
        return False

    def has_ready(self):
        while self._ready and self._ready[0]._cancelled:
            self._ready.popleft()
        return bool(self._ready)

    def step(self):
        h = self._ready.popleft()
        if not h._cancelled:
            events._set_running_loop(self)
            try:
                h._run()
            finally:
                events._set_running_loop(None)

    def fire_timers(self):
        """advance virtual time to the next timer and make it ready"""
        while self._timers:
            when, _, h = heapq.heappop(self._timers)
            if h._cancelled:
                continue
            self._now = max(self._now, when)
            self._ready.append(h)
            return True
        return False

    def owners(self):
        out = []
        for h in self._ready:
            if h._cancelled:
                continue
            out.append(getattr(h._callback, "__self__", None))
        return out


class _Frozen(list):
    def append(self, x):       # the run is over: tidy-up cancellations are not part of the execution
        pass

    def insert(self, i, x):
        pass


class Falsy(int):
    """an item that is falsy although it is an item (as an all-default message is, or 0, or ""): what travels through the
    channel for every even abstract item number"""
    def __bool__(self):
        return False


def _wrap(n):
    return Falsy(n) if isinstance(n, int) and n % 2 == 0 else n


def _item(r):
    """items are positive ints; anything else a receiver is handed (a private sentinel, say) is logged as item -1, which nobody sent"""
    return int(r) if isinstance(r, int) and not isinstance(r, bool) else -1


class World:
    """prog: {task: [op, ...]} with op = {"op": send|sendfrom|recv|recvloop|next|iterloop|close|recvto, ...}"""

    def __init__(self, prog, maxsize):
        from betterproto.grpc.util.async_channel import AsyncChannel, ChannelClosed, ChannelDone
        self.ChannelClosed, self.ChannelDone = ChannelClosed, ChannelDone
        self.loop = StepLoop()
        self.prog = dict(prog)
        events._set_running_loop(self.loop)
        try:
            self.ch = AsyncChannel(buffer_limit=maxsize)
        finally:
            events._set_running_loop(None)
        self.flush = getattr(AsyncChannel, "_AsyncChannel__flush", None)
        prog = self.prog
        self.gates = {t: [] for t in prog}
        self.released = {t: 0 for t in prog}
        self.awaited = {t: 0 for t in prog}
        self.res = {t: [] for t in prog}
        self.log = []
        self.tasks = {t: self.loop.create_task(self.harness(t), name=t) for t in sorted(prog)}
        while self.loop.has_ready():      # park every task at its first gate
            self.loop.step()

    def gate(self, t, k):
        g = self.gates[t]
        while len(g) <= k:
            g.append(self.loop.create_future())
        return g[k]

    def _closed(self):
        try:
            return bool(self.ch.closed())
        except Exception:
            return False

    async def harness(self, t):
        ops = self.prog[t]
        i = 0
        while i < len(ops):
            k = self.awaited[t]
            self.awaited[t] += 1
            op = ops[i]
            kind = {"recvloop": "recv", "iterloop": "next", "recvto": "recv"}.get(op["op"], op["op"])
            incall = False
            try:
                await self.gate(t, k)
                items = [op["item"]] if op["op"] == "send" else list(op.get("items", [])) if op["op"] == "sendfrom" else []
                self.log.append({"ev": "call", "t": t, "op": kind, "items": items, "close": bool(op.get("close", False)),
                                 "closed": self._closed(), "r": "", "v": 0, "timed": op["op"] == "recvto"})
                incall = True
                r = await self.do(op)
            except asyncio.CancelledError:
                self.res[t].append((i + 1, "Cancelled", 0))
                if incall:
                    self.log.append({"ev": "ret", "t": t, "op": kind, "items": [], "close": False, "closed": self._closed(), "r": "Cancelled", "v": 0})
                raise
            except self.ChannelClosed:
                r = ("ChannelClosed", 0)
            except self.ChannelDone:
                r = ("ChannelDone", 0)
            except StopAsyncIteration:
                r = ("StopIter", 0)
            except asyncio.TimeoutError:
                r = ("Timeout", 0)
            except Exception as ex:
                r = (type(ex).__name__, 0)
            self.res[t].append((i + 1,) + r)
            self.log.append({"ev": "ret", "t": t, "op": kind, "items": [], "close": False, "closed": self._closed(), "r": r[0], "v": r[1]})
            if op["op"] in ("recvloop", "iterloop") and r[0] == "item":
                continue
            i += 1

    async def do(self, op):
        k = op["op"]
        if k == "send":
            await self.ch.send(_wrap(op["item"]))
            return ("ok", 0)
        if k == "sendfrom":
            await self.ch.send_from([_wrap(x) for x in op["items"]], close=op["close"])
            return ("ok", 0)
        if k in ("recv", "recvloop"):
            r = await self.ch.receive()
            return ("None", 0) if r is None else ("item", _item(r))
        if k == "recvto":
            r = await asyncio.wait_for(self.ch.receive(), op["timeout"])
            return ("None", 0) if r is None else ("item", _item(r))
        if k in ("next", "iterloop"):
            r = await self.ch.__anext__()
            return ("item", _item(r))
        if k == "close":
            self.ch.close()
            return ("ok", 0)
        raise AssertionError(k)

    # ---- environment actions ----
    def wake(self, t):
        k = self.released[t]
        self.released[t] += 1
        g = self.gate(t, k)
        if not g.done():
            g.set_result(None)

    def cancel(self, t):
        self.log.append({"ev": "cancel", "t": t, "op": "", "items": [], "close": False, "closed": self._closed(), "r": "", "v": 0})
        self.tasks[t].cancel()

    def run_head(self):
        if self.loop.has_ready():
            self.loop.step()
            return True
        return False

    def _settle(self, limit=10000):
        n = 0
        while n < limit:
            n += 1
            if self.loop.has_ready():
                self.loop.step()
                continue
            progressed = False
            for t in sorted(self.prog):
                if not self.tasks[t].done() and self.released[t] < self.awaited[t]:
                    self.wake(t)
                    progressed = True
            if not progressed:
                break
        return n < limit

    def _snapshot(self, ev):
        blocked = [t for t in sorted(self.prog) if not self.tasks[t].done()]
        finished = [t for t in sorted(self.prog) if self.tasks[t].done() and not self.tasks[t].cancelled()]
        anycancel = any(e["ev"] == "cancel" for e in self.log) or any(e["r"] == "Timeout" for e in self.log)
        loopers = [t for t in sorted(self.prog) if self.prog[t] and self.prog[t][-1]["op"] in ("recvloop", "iterloop")]
        self.log.append({"ev": ev, "t": "", "op": "", "items": [], "close": False, "closed": self._closed(), "r": "", "v": 0,
                         "blocked": blocked, "finished": finished, "loopers": loopers, "anycancel": anycancel})

    def drain(self, limit=10000):
        """release every remaining gate and run to quiescence (predrain event); if the channel is closed let one
        more task receive until done -- the channel must still be usable -- and log the quiesce event"""
        ok = self._settle(limit)
        self._snapshot("predrain")
        if self._closed() and "zz" not in self.prog:
            self.prog["zz"] = [{"op": "recvloop"}]
            self.gates["zz"], self.released["zz"], self.awaited["zz"], self.res["zz"] = [], 0, 0, []
            self.tasks["zz"] = self.loop.create_task(self.harness("zz"), name="zz")
            ok = self._settle(limit) and ok
        self._snapshot("quiesce")
        self.log = _Frozen(self.log)
        for t in sorted(self.prog):      # tidy up so that no 'Task was destroyed but it is pending' noise appears
            if not self.tasks[t].done():
                self.tasks[t].cancel()
        k = 0
        while self.loop.has_ready() and k < 1000:
            self.loop.step()
            k += 1
        return ok

    # ---- observation (includes internals: used for drift diagnostics only) ----
    def observe(self):
        ch = self.ch
        q = getattr(ch, "_queue", None)
        names = {id(task): t for t, task in self.tasks.items()}
        ready = []
        for o in self.loop.owners():
            ready.append(names.get(id(o), "F?" if isinstance(o, asyncio.Task) else repr(type(o).__name__)))
        return {
            "queue": [0 if x is self.flush else x for x in list(q._queue)] if q is not None else None,
            "waiting": getattr(ch, "_waiting_receivers", None), "closed": self._closed(),
            "flushed": getattr(ch, "_flushed", None),
            "unfinished": q._unfinished_tasks if q is not None else None,
            "ngetters": len(q._getters) if q is not None else None, "nputters": len(q._putters) if q is not None else None,
            "ready": ready,
            "res": {t: [tuple(x) for x in self.res[t]] for t in self.res},
            "taskdone": {t: self.tasks[t].done() for t in self.tasks},
        }


def model_obs(s, tasks):
    def nm(t):
        return t if t in tasks else "F?"
    return {
        "queue": s["queue"], "waiting": s["waiting"], "closed": s["closed"], "flushed": s["flushed"],
        "unfinished": s["unfinished"], "ngetters": len(s["getters"]), "nputters": len(s["putters"]),
        "ready": [nm(t) for t in s["ready"]],
        "res": {t: [(r["i"], r["r"], r["v"]) for r in s["res"][t]] for t in tasks},
        "taskdone": {t: s["pc"][t]["k"] == "done" for t in tasks},
    }


PUBLIC = ("closed", "res", "taskdone")
