"""Shared drivers for message-level events on the Wide schema family (used by C01, C04, C05, C09 ...).
Each driver runs the real code on one case and records what it did; TLC judges the record."""
import io
import itertools

import betterproto

from . import dyn, gen

_G = {}


def world():
    if not _G:
        schema = gen.wide_schema()
        _G["schema"] = schema
        _G["bp"] = dyn.make_bp(schema)
        _G["ref"] = None
    return _G


def ref_classes():
    w = world()
    if w["ref"] is None:
        w["ref"] = dyn.make_ref(w["schema"])
    return w["ref"]


def boundary_cases(schema, types=None):
    """single fields exhaustively over their boundary domain x presence mode"""
    out = []
    for ty, fields in schema["types"].items():
        if types and ty not in types:
            continue
        base = gen.fresh(schema, ty)
        out.append({"ty": ty, "val": base, "tag": "fresh"})
        for f in fields:
            for v in gen.field_domain(schema, f):
                val = dict(base)
                val[f["name"]] = v
                out.append({"ty": ty, "val": val, "tag": f["name"]})
    return out


def pair_cases(schema, ty, rnd, n):
    """pairwise combinations on one type: two fields set to boundary values"""
    fields = schema["types"][ty]
    out = []
    pairs = list(itertools.combinations(fields, 2))
    rnd.shuffle(pairs)
    for f1, f2 in pairs[:n]:
        if f1["card"] == "oneof" and f2["card"] == "oneof" and f1["group"] == f2["group"]:
            continue
        val = gen.fresh(schema, ty)
        val[f1["name"]] = rnd.choice(gen.field_domain(schema, f1))
        val[f2["name"]] = rnd.choice(gen.field_domain(schema, f2))
        out.append({"ty": ty, "val": val, "tag": f1["name"] + "+" + f2["name"]})
    return out


def random_cases(schema, rnd, n, types=None):
    tys = [t for t in schema["types"] if not types or t in types]
    return [{"ty": t, "val": gen.rmsg(schema, t, rnd), "tag": "random"} for t in (rnd.choice(tys) for _ in range(n))]


def nontrivial(case):
    base = gen.fresh(world()["schema"], case["ty"])
    return case["val"] != base


def rt_event(case):
    """C01/C09: build, encode, decode, compare, re-encode; also len / dump / delimited / SerializeToString"""
    w = world()
    schema, C = w["schema"], w["bp"]
    ty = case["ty"]
    ev = {"op": "rt", "ty": ty, "val": case["val"], "res": "ok", "b": [], "obs": {}, "eq": False, "b2": [],
          "len": -1, "dump": [], "sts": [], "delim": [], "case": {"ty": ty, "tag": case.get("tag", "")}}
    try:
        m = dyn.conc_bp(schema, C, ty, case["val"])
        b = bytes(m)
        ev["b"] = list(b)
        ev["len"] = len(m)
        s = io.BytesIO()
        m.dump(s)
        ev["dump"] = list(s.getvalue())
        s = io.BytesIO()
        m.dump(s, betterproto.SIZE_DELIMITED)
        ev["delim"] = list(s.getvalue())
        ev["sts"] = list(m.SerializeToString())
        p = C[ty]().parse(b)
        ev["obs"] = dyn.obs_bp(schema, p, ty)
        ev["eq"] = bool(p == m)
        ev["b2"] = list(bytes(p))
    except Exception as ex:      # noqa
        ev["res"] = type(ex).__name__ + ":" + str(ex)[:80]
        if not ev["obs"]:
            ev["obs"] = case["val"]
    return ev
