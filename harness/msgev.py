"""Shared drivers for message-level events on the Wide schema family (used by C01, C04, C05, C09 ...).
Each driver runs the real code on one case and records what it did; TLC judges the record."""
import io
import itertools

import betterproto

from . import dyn, gen

_G = {}


def world():
    if not _G:
        schema = gen.wide_schema()
        _G["schema"] = schema
        _G["bp"] = dyn.make_bp(schema)
        _G["ref"] = None
    return _G


def gen_world():
    """the same schema as plugin-generated classes (build in the parent process, before forking workers)"""
    from . import common, genworld
    w = world()
    if "gen" not in w:
        try:
            w["gen"] = genworld.build(w["schema"])
        except common.MachineryError as ex:
            # whether the plugin works at all is C03's subject: the message-level checks go on with the hand-built classes
            w["gen"] = None
            w["gen_error"] = str(ex)[:300]
            print("NOTE: plugin-generated classes of the Wide schema are not available (%s); continuing with the classes built through the field API" % str(ex)[:160])
    return w["gen"]


def classes_for(case):
    w = world()
    return w["gen"] if case.get("world") == "gen" and w.get("gen") else w["bp"]


def as_generated(cases, skip=("TOneP",)):
    """the same cases on the plugin-generated classes (none when they could not be built)"""
    if not world().get("gen"):
        return []
    return [dict(c, world="gen", tag="gen:" + c.get("tag", "")) for c in cases if c["ty"] not in skip]


def ref_classes():
    w = world()
    if w["ref"] is None:
        w["ref"] = dyn.make_ref(w["schema"])
    return w["ref"]


def boundary_cases(schema, types=None):
    """single fields exhaustively over their boundary domain x presence mode"""
    out = []
    for ty, fields in schema["types"].items():
        if types and ty not in types:
            continue
        base = gen.fresh(schema, ty)
        out.append({"ty": ty, "val": base, "tag": "fresh"})
        for f in fields:
            for v in gen.field_domain(schema, f):
                val = dict(base)
                val[f["name"]] = v
                out.append({"ty": ty, "val": val, "tag": f["name"]})
    return out


def pair_cases(schema, ty, rnd, n):
    """pairwise combinations on one type: two fields set to boundary values"""
    fields = schema["types"][ty]
    out = []
    pairs = list(itertools.combinations(fields, 2))
    rnd.shuffle(pairs)
    for f1, f2 in pairs[:n]:
        if f1["card"] == "oneof" and f2["card"] == "oneof" and f1["group"] == f2["group"]:
            continue
        val = gen.fresh(schema, ty)
        val[f1["name"]] = rnd.choice(gen.field_domain(schema, f1))
        val[f2["name"]] = rnd.choice(gen.field_domain(schema, f2))
        out.append({"ty": ty, "val": val, "tag": f1["name"] + "+" + f2["name"]})
    return out


def random_cases(schema, rnd, n, types=None):
    tys = [t for t in schema["types"] if not types or t in types]
    return [{"ty": t, "val": gen.rmsg(schema, t, rnd), "tag": "random"} for t in (rnd.choice(tys) for _ in range(n))]


def nontrivial(case):
    base = gen.fresh(world()["schema"], case["ty"])
    return case["val"] != base


def rt_event(case):
    """C01/C09: build, encode, decode, compare, re-encode; also len / dump / delimited / SerializeToString"""
    w = world()
    schema, C = w["schema"], classes_for(case)
    ty = case["ty"]
    ev = {"op": "rt", "ty": ty, "val": case["val"], "res": "ok", "b": [], "obs": {}, "eq": False, "b2": [],
          "len": -1, "dump": [], "sts": [], "delim": [], "case": {"ty": ty, "tag": case.get("tag", ""), "world": case.get("world", "dyn")}}
    try:
        m = dyn.conc_bp(schema, C, ty, case["val"])
        b = bytes(m)
        ev["b"] = list(b)
        ev["len"] = len(m)
        s = io.BytesIO()
        m.dump(s)
        ev["dump"] = list(s.getvalue())
        s = io.BytesIO()
        m.dump(s, betterproto.SIZE_DELIMITED)
        ev["delim"] = list(s.getvalue())
        ev["sts"] = list(m.SerializeToString())
        p = C[ty]().parse(b)
        ev["obs"] = dyn.obs_decoded(schema, p, ty)
        ev["eq"] = bool(p == m)
        ev["b2"] = list(bytes(p))
    except Exception as ex:      # noqa
        ev["res"] = type(ex).__name__ + ":" + str(ex)[:80]
        if not ev["obs"]:
            ev["obs"] = case["val"]
    return ev


def size_boundary_cases(schema, bounds=(127,), span=(-8, 3)):
    """length-delimited payloads whose own length, or whose container's length, crosses a varint size boundary
    (2**7k - 1): strings / bytes alone, as oneof / optional / wrapper / repeated / map members, inside nested messages
    (so that the *outer* payload crosses the boundary a few bytes later), packed buffers, and far field numbers (2/3-byte keys)"""
    def S(n):
        return {"k": "str", "cp": [120] * n}

    def B(n):
        return {"k": "bytes", "b": [7] * n}

    def I(v):
        return {"k": "int", "neg": v < 0, "mag": [d for d in _mag(abs(v))]}

    def _mag(n):
        while n:
            yield n & 127
            n >>= 7
    out = []

    def add(ty, tag_, **kv):
        val = gen.fresh(schema, ty)
        val.update(kv)
        out.append({"ty": ty, "val": val, "tag": "size:" + tag_})
    for bnd in bounds:
        for n in range(max(0, bnd + span[0]), bnd + span[1]):
            inner = {"k": "msg", "m": {"x": I(0), "s": S(n)}}
            inner2 = {"k": "msg", "m": {"x": I(-5), "s": S(n)}}
            add("TImpl", "i_string", i_string=S(n))
            add("TImpl", "i_bytes", i_bytes=B(n))
            add("TOpt", "o_string", o_string=S(n))
            add("TOpt", "o_msg", o_msg=inner)
            add("TOne", "g_bytes", g_bytes=B(n))
            add("TOne", "h_c", h_c=inner2)
            add("TRep", "r_string", r_string={"k": "list", "xs": [S(n), S(0)]})
            add("TRep", "r_msg", r_msg={"k": "list", "xs": [inner, inner2]})
            add("TRep", "r_bool", r_bool={"k": "list", "xs": [{"k": "bool", "v": i % 3 == 0} for i in range(n)]})
            add("TRep", "r_int32", r_int32={"k": "list", "xs": [I(1)] * (n - 1) + [I(300)]})
            add("TRep", "r_fixed32", r_fixed32={"k": "list", "xs": [I(i) for i in range((n + 3) // 4)]})
            add("TRep", "r_double", r_double={"k": "list", "xs": [{"k": "f64", "b": [0, 0, 0, 0, 0, 0, 240, 63]}] * ((n + 7) // 8)})
            add("TMapV", "mv_string", mv_string={"k": "map", "es": [[S(1), S(n)]]})
            add("TMapV", "mv_bytes", mv_bytes={"k": "map", "es": [[S(0), B(n)]]})
            add("TMapV", "mv_msg", mv_msg={"k": "map", "es": [[S(2), inner]]})
            add("TMapK", "mk_string", mk_string={"k": "map", "es": [[S(n), I(0)]]})
            add("TWkt", "w_string", w_string={"k": "wrapv", "v": S(n)})
            add("TWkt", "w_bytes", w_bytes={"k": "wrapv", "v": B(n)})
            add("TWkt", "mid", mid=S(n))
            add("TWkt", "m", m=inner2)
            add("TMix", "c+b", c=inner, b=S(n))
            add("TMix", "k", k={"k": "list", "xs": [inner2]})
            add("TMix", "h", h={"k": "map", "es": [[S(n), inner2]]})
            add("Peer", "node.child", node={"k": "msg", "m": dict(gen.fresh(schema, "Node"), child={"k": "msg", "m": dict(gen.fresh(schema, "Node"), peer={"k": "msg", "m": {"node": {"k": "unset"}, "tag": S(n)}})})}, tag=S(0))
            add("TNames", "value", value=B(n))
    return out
