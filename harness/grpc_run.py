"""Run in a fresh interpreter: import the generated package under <root>, serve every generated <Service>Base (some
methods overridden: ok / raising GRPCError; the rest left to the generated default) over grpclib.testing.ChannelFor,
and make the calls of the plan through the generated <Service>Stub.  Prints one record per call: what the caller
sent and received, which handler ran how often with which requests, the status, and the metadata / deadline the
server saw.  Plan: {"stub": {timeout, deadline, metadata}, "calls": [{svc, method, nreq, mode, nresp, status, kw}]}."""
import asyncio
import importlib
import json
import pkgutil
import sys


def main(root, repo_src, plan_path):
    sys.path.insert(0, repo_src)
    sys.path.insert(0, root)
    import importlib.util
    spec = importlib.util.spec_from_file_location("behave", __file__.rsplit("/", 1)[0] + "/behave.py")   # (not via sys.path: harness/gen.py
    behave = importlib.util.module_from_spec(spec)                                                       #  would shadow the generated `gen`)
    spec.loader.exec_module(behave)
    import betterproto
    import grpclib
    import grpclib.const
    from betterproto.casing import safe_snake_case
    from grpclib.metadata import Deadline
    from grpclib.testing import ChannelFor
    plan = json.load(open(plan_path))
    out = {"import": "ok", "calls": []}

    def walk(pkgname):
        mod = importlib.import_module(pkgname)
        yield pkgname, mod
        if hasattr(mod, "__path__"):
            for m in pkgutil.iter_modules(mod.__path__):
                yield from walk(pkgname + "." + m.name)

    try:
        mods = dict(walk("gen"))
    except Exception as ex:
        out["import"] = type(ex).__name__ + ": " + str(ex)[:200]
        json.dump(out, sys.stdout)
        return

    def kw_of(d):
        kw = {}
        if d.get("timeout") is not None:
            kw["timeout"] = d["timeout"]
        if d.get("deadline") is not None:
            kw["deadline"] = Deadline.from_timeout(d["deadline"])
        if d.get("metadata") is not None:
            md = d["metadata"]
            kw["metadata"] = {} if md == "<empty-dict>" else [] if md == "<empty-list>" else () if md == "<empty-tuple>" else {"x-who": md}
        return kw

    async def one(call):
        mod = mods["gen." + call["mod"] if call["mod"] else "gen"]
        pyname = safe_snake_case(call["method"])
        route = "/" + (call["mod"] + "." if call["mod"] else "") + call["svc"] + "/" + call["method"]
        # the server base class that registers this route, and the stub generated next to it (how the class is *named* is C19's subject)
        Base = Stub = None
        for k, v in list(vars(mod).items()):
            if isinstance(v, type) and k.endswith("Base") and v.__module__ == mod.__name__ and hasattr(v, "__mapping__"):
                try:
                    if route in v().__mapping__():
                        Base, Stub = v, getattr(mod, k[:-4] + "Stub", None)
                except Exception:
                    pass
        rec = {"route": route, "ran": [], "seen_reqs": [], "sent_resps": [], "meta": "", "deadline": -1, "hit": [], "res": "ok", "status": "",
               "got": [], "sent": [], "exc": ""}
        if Base is None or Stub is None:
            rec["res"] = "no_such_route"
            return rec
        base_map = Base().__mapping__()
        h0 = base_map[route]
        req_t, rep_t = h0.request_type, h0.reply_type
        cs = h0.cardinality in (grpclib.const.Cardinality.STREAM_UNARY, grpclib.const.Cardinality.STREAM_STREAM)
        ss = h0.cardinality in (grpclib.const.Cardinality.UNARY_STREAM, grpclib.const.Cardinality.STREAM_STREAM)

        def make_handler(name):
            if ss and call.get("handler_kind") in ("channel", "aiter") and call["mode"] == "ok":
                # a handler need not be an async generator: any async-iterable object it returns is the response stream -
                # betterproto's own AsyncChannel filled by a background producer, or a plain class with __aiter__/__anext__
                def handler(self, arg):
                    rec["ran"].append(name)
                    resps = [behave.build(rep_t, salt="r%d" % k) for k in range(call["nresp"])]

                    async def consume():
                        if cs:
                            async for r in arg:
                                rec["seen_reqs"].append(bytes(r).hex())
                        else:
                            rec["seen_reqs"].append(bytes(arg).hex())
                    if call["handler_kind"] == "channel":
                        from betterproto.grpc.util.async_channel import AsyncChannel
                        ch = AsyncChannel()

                        async def produce():
                            await consume()
                            for resp in resps:
                                rec["sent_resps"].append(bytes(resp).hex())
                                await ch.send(resp)
                            ch.close()
                        rec["_task"] = asyncio.ensure_future(produce())
                        return ch

                    class It:
                        def __init__(self):
                            self.k = -1

                        def __aiter__(self):
                            return self

                        async def __anext__(self):
                            if self.k < 0:
                                await consume()
                                self.k = 0
                            if self.k >= len(resps):
                                raise StopAsyncIteration
                            self.k += 1
                            rec["sent_resps"].append(bytes(resps[self.k - 1]).hex())
                            return resps[self.k - 1]
                    return It()
            elif ss:
                async def handler(self, arg):
                    rec["ran"].append(name)
                    if cs:
                        async for r in arg:
                            rec["seen_reqs"].append(bytes(r).hex())
                    else:
                        rec["seen_reqs"].append(bytes(arg).hex())
                    for k in range(call["nresp"]):
                        resp = behave.build(rep_t, salt="r%d" % k)
                        rec["sent_resps"].append(bytes(resp).hex())
                        yield resp
                    if call["mode"] == "raise":
                        raise grpclib.GRPCError(getattr(grpclib.Status, call["status"]), "planned")
            else:
                async def handler(self, arg):
                    rec["ran"].append(name)
                    if cs:
                        async for r in arg:
                            rec["seen_reqs"].append(bytes(r).hex())
                    else:
                        rec["seen_reqs"].append(bytes(arg).hex())
                    if call["mode"] == "raise":
                        raise grpclib.GRPCError(getattr(grpclib.Status, call["status"]), "planned")
                    resp = behave.build(rep_t, salt="r0")
                    rec["sent_resps"].append(bytes(resp).hex())
                    return resp
            return handler

        ns = {}
        # every *other* method of the service is overridden with a recorder too: a mis-routed call must show up
        for r2 in base_map:
            n2 = safe_snake_case(r2.rsplit("/", 1)[1])
            if n2 != pyname:
                def mk(n=n2):
                    async def other(self, arg):
                        rec["ran"].append("OTHER:" + n)
                        raise grpclib.GRPCError(grpclib.Status.DATA_LOSS, "wrong handler")
                    return other
                ns[n2] = mk()
        if call["mode"] != "default":
            ns[pyname] = make_handler(pyname)

        def mapping(self):
            m = Base.__mapping__(self)
            wrapped = {}
            for r, h in m.items():
                async def w(stream, _f=h.func, _r=r):
                    rec["hit"].append(_r)
                    md = dict(stream.metadata)
                    rec["meta"] = str(md.get("x-who", ""))
                    rec["deadline"] = -1 if stream.deadline is None else int(round(stream.deadline.time_remaining() / 1000.0))
                    return await _f(stream)
                wrapped[r] = grpclib.const.Handler(w, h.cardinality, h.request_type, h.reply_type)
            return wrapped
        ns["__mapping__"] = mapping
        Impl = type("Impl", (Base,), ns)
        reqs = [behave.build(req_t, salt="q%d" % k) for k in range(call["nreq"] if cs else 1)]
        if call.get("default_last") and reqs:
            reqs[-1] = req_t()               # a message whose fields all hold their defaults is a message too (it is falsy)
        rec["sent"] = [bytes(r).hex() for r in reqs]
        try:
            async with ChannelFor([Impl()]) as channel:
                stub = Stub(channel, **kw_of(plan["stub"]))
                meth = getattr(stub, pyname)
                arg = reqs if cs else reqs[0]
                if cs and ss and call.get("reuse") and call["mode"] == "ok":
                    # history: the application feeds its bidi calls from one long-lived outbox.  A first call is abandoned by the
                    # caller (its task is cancelled while it waits for a response); the call under observation then uses the same
                    # outbox.  What the abandoned call left behind must not take part in it.
                    from betterproto.grpc.util.async_channel import AsyncChannel
                    outbox = AsyncChannel()

                    async def first():
                        async for _ in meth(outbox, **kw_of(call["kw"])):
                            pass
                    t = asyncio.ensure_future(first())
                    await outbox.send(behave.build(req_t, salt="pre"))
                    for _ in range(500):
                        if rec["seen_reqs"]:
                            break
                        await asyncio.sleep(0.01)
                    t.cancel()
                    try:
                        await t
                    except BaseException:
                        pass
                    await asyncio.sleep(0.05)
                    for k in ("ran", "seen_reqs", "sent_resps", "hit"):
                        del rec[k][:]

                    async def feed():
                        for r in reqs:
                            await outbox.send(r)
                        outbox.close()
                    rec["_task"] = asyncio.ensure_future(feed())
                    arg = outbox
                elif cs and call.get("async_source"):
                    async def agen():
                        for r in reqs:
                            yield r
                    arg = agen()
                if ss:
                    async for resp in meth(arg, **kw_of(call["kw"])):
                        rec["got"].append(bytes(resp).hex())
                else:
                    resp = await meth(arg, **kw_of(call["kw"]))
                    rec["got"].append(bytes(resp).hex())
        except grpclib.GRPCError as ex:
            rec["res"], rec["status"] = "grpc_error", ex.status.name
        except Exception as ex:
            rec["res"], rec["exc"] = "exception", type(ex).__name__ + ": " + str(ex)[:120]
        t = rec.pop("_task", None)
        if t is not None and not t.done():
            t.cancel()
        return rec

    hangs = [0]

    async def run_all():
        for call in plan["calls"]:
            try:
                r = await asyncio.wait_for(one(call), 60 if hangs[0] == 0 else 15)      # (a loaded machine gets a full minute once)
            except asyncio.TimeoutError:
                hangs[0] += 1
                r = {"route": call["method"], "ran": [], "seen_reqs": [], "sent_resps": [], "meta": "", "deadline": -1, "hit": [], "res": "hang",
                     "status": "", "got": [], "sent": [], "exc": ""}
            except Exception as ex:
                r = {"route": call["method"], "ran": [], "seen_reqs": [], "sent_resps": [], "meta": "", "deadline": -1, "hit": [], "res": "exception",
                     "status": "", "got": [], "sent": [], "exc": type(ex).__name__ + ": " + str(ex)[:120]}
            out["calls"].append(r)
    asyncio.run(run_all())
    json.dump(out, sys.stdout)


if __name__ == "__main__":
    main(*sys.argv[1:4])
