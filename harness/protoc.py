"""Runs protoc with the betterproto plugin from /repo's working tree (offline), and introspects the
generated package in a separate Python process.  `ruff` is not installed: the plugin pipes its output
through `ruff`, so an identity shim (`cat`) is put first on PATH -- the object under test is the
template output."""
import json
import os
import stat
import subprocess
import sys

from . import common


def _tools(workdir):
    d = os.path.join(workdir, "tools")
    if not os.path.exists(os.path.join(d, "ready")):
        os.makedirs(d, exist_ok=True)
        ruff = os.path.join(d, "ruff")
        with open(ruff, "w") as f:
            f.write("#!/bin/sh\nexec cat\n")
        os.chmod(ruff, os.stat(ruff).st_mode | stat.S_IEXEC)
        plug = os.path.join(d, "protoc-gen-python_betterproto")
        with open(plug, "w") as f:
            f.write("#!/bin/sh\nexec env PYTHONPATH=%s/src %s -m betterproto.plugin\n" % (common.REPO, common.PY))
        os.chmod(plug, os.stat(plug).st_mode | stat.S_IEXEC)
        open(os.path.join(d, "ready"), "w").close()
    return d


def generate(workdir, name, protos, options=(), timeout=900, rerun=None):
    """protos: {relative path: text}.  Output goes to <workdir>/<name>/gen (gen is a package below a path root).
    Returns dict(rc, err, root, descriptor_set path)."""
    tools = _tools(workdir)
    root = os.path.join(workdir, name)
    src = os.path.join(root, "proto")
    gen = os.path.join(root, "gen")
    os.makedirs(src, exist_ok=True)
    os.makedirs(gen, exist_ok=True)
    for rel, text in protos.items():
        p = os.path.join(src, rel)
        os.makedirs(os.path.dirname(p), exist_ok=True)
        with open(p, "w") as f:
            f.write(text)
    open(os.path.join(gen, "__init__.py"), "a").close()
    dset = os.path.join(root, "descriptor.bin")
    env = dict(os.environ)
    env["PATH"] = tools + ":" + env.get("PATH", "")
    env["PYTHONPATH"] = common.REPO + "/src"
    cmd = [common.PY, "-m", "grpc_tools.protoc", "-I", src, "--python_betterproto_out=" + gen,
           "--plugin=protoc-gen-python_betterproto=" + os.path.join(tools, "protoc-gen-python_betterproto"),
           "--descriptor_set_out=" + dset, "--include_imports"]
    if options:
        cmd.append("--python_betterproto_opt=" + ",".join(options))
    if rerun is not None:
        # incremental use: protoc is run from inside the output directory (--python_betterproto_out=.), first on all files,
        # then again on a subset only; what the first run wrote for the other packages must still be there
        base = [a for a in cmd if not a.startswith("--python_betterproto_out=")] + ["--python_betterproto_out=."]
        base = [a if a != "-I" else a for a in base]
        try:
            p = subprocess.run(base + sorted(protos), cwd=gen, env=env, stdout=subprocess.PIPE, stderr=subprocess.STDOUT, text=True, timeout=timeout)
            rc, err = p.returncode, p.stdout[-1500:]
            if rc == 0:
                second = [a for a in base if not a.startswith("--descriptor_set_out=")] + ["--descriptor_set_out=" + dset + ".2"]
                p = subprocess.run(second + sorted(rerun), cwd=gen, env=env, stdout=subprocess.PIPE, stderr=subprocess.STDOUT, text=True, timeout=timeout)
                rc, err = p.returncode, p.stdout[-1500:]
        except subprocess.TimeoutExpired:
            rc, err = 124, "timeout"
        return {"rc": rc, "err": err, "root": root, "dset": dset}
    cmd += sorted(protos)
    try:
        p = subprocess.run(cmd, cwd=src, env=env, stdout=subprocess.PIPE, stderr=subprocess.STDOUT, text=True, timeout=timeout)
        rc, err = p.returncode, p.stdout[-1500:]
    except subprocess.TimeoutExpired:
        rc, err = 124, "timeout"
    return {"rc": rc, "err": err, "root": root, "dset": dset}


INTROSPECT = r'''
import dataclasses, importlib, json, pkgutil, sys, typing, os, traceback
sys.path.insert(0, sys.argv[2])          # /repo/src
sys.path.insert(0, sys.argv[1])          # root containing gen/
import betterproto
out = {"import": "ok", "modules": {}, "errors": []}
def tname(t):
    if t is type(None): return "None"
    mod = getattr(t, "__module__", "")
    if mod.startswith("gen"): return mod[4:] + ":" + t.__qualname__ if mod != "gen" else ":" + t.__qualname__
    if mod in ("builtins", "datetime"): return t.__name__
    return mod + ":" + getattr(t, "__qualname__", repr(t))
def hint(t):
    o = typing.get_origin(t)
    if o is None: return {"o": "", "args": [], "t": tname(t)}
    if o is typing.Union or str(o) == "<class 'types.UnionType'>":
        args = [a for a in typing.get_args(t)]
        return {"o": "optional" if type(None) in args else "union", "args": [hint(a) for a in args if a is not type(None)], "t": ""}
    return {"o": o.__name__, "args": [hint(a) for a in typing.get_args(t)], "t": ""}
def walk(pkgname):
    mod = importlib.import_module(pkgname)
    yield pkgname, mod
    if hasattr(mod, "__path__"):
        for m in pkgutil.iter_modules(mod.__path__):
            yield from walk(pkgname + "." + m.name)
try:
    for name, mod in walk("gen"):
        desc = {"messages": {}, "enums": {}, "stubs": {}, "bases": {}}
        for k, v in list(vars(mod).items()):          # (instantiating a deprecated message adds __warningregistry__ to the module)
            if not isinstance(v, type) or getattr(v, "__module__", None) != mod.__name__: continue
            try:
                if issubclass(v, betterproto.Message):
                    # (first the library's own resolution, on classes nothing has looked at yet: typing memoises forward
                    #  references, so an evaluation of ours before it could paper over a stale one)
                    cbf = v()._betterproto.cls_by_field
                    hints = typing.get_type_hints(v, vars(mod), {})
                    fs = []
                    for f in dataclasses.fields(v):
                        md = betterproto.FieldMetadata.get(f)
                        fs.append({"py": f.name, "num": md.number, "ptype": md.proto_type, "map": list(md.map_types or []), "group": md.group or "",
                                   "wraps": md.wraps or "", "optional": bool(md.optional), "hint": hint(hints[f.name])})
                    desc["messages"][k] = fs
                    # the library's own resolution of the references (Message._type_hints -> cls_by_field, used when parsing) must
                    # succeed and name the very classes the annotations resolve to
                    def leaf(t):
                        while typing.get_origin(t) is not None:
                            args = [a for a in typing.get_args(t) if a is not type(None)]
                            t = args[-1]
                        return t
                    for f in dataclasses.fields(v):
                        md = betterproto.FieldMetadata.get(f)
                        want = leaf(hints[f.name])
                        if md.proto_type == "map":
                            got = cbf.get(f.name + ".value")
                        elif md.proto_type in ("message", "enum") and not md.wraps:
                            got = cbf.get(f.name)
                        else:
                            continue
                        if isinstance(want, type) and (issubclass(want, (betterproto.Message, betterproto.Enum))) and got is not want:
                            out["errors"].append([name, k, "field %s: the library resolves the reference to %r, the annotation to %r" % (f.name, got, want)])
                        elif md.proto_type == "map" and isinstance(want, type) and issubclass(want, betterproto.Message):
                            # ... and a received map value is an object of that class
                            key = {"string": "k", "bool": True}.get(md.map_types[0], 1)
                            back = v().parse(bytes(v(**{f.name: {key: want()}})))
                            vals = list(getattr(back, f.name).values())
                            if len(vals) != 1 or type(vals[0]) is not want:
                                out["errors"].append([name, k, "field %s: a received map value is %r, the annotation says %r" % (f.name, [type(x) for x in vals], want)])
                elif issubclass(v, betterproto.Enum):
                    desc["enums"][k] = [[m.name, int(m.value)] for m in v.__members__.values()] if False else [[n, int(m.value)] for n, m in v.__members__.items()]
                elif issubclass(v, betterproto.ServiceStub):
                    desc["stubs"][k] = sorted(n for n, f in vars(v).items() if callable(f) and not n.startswith("_"))
                elif hasattr(v, "__mapping__"):
                    hs = {}
                    for route, h in v().__mapping__().items():
                        hs[route] = {"card": h.cardinality.name, "req": tname(h.request_type), "rep": tname(h.reply_type)}
                    desc["bases"][k] = hs
            except Exception as ex:
                out["errors"].append([name, k, type(ex).__name__ + ": " + str(ex)[:200]])
        out["modules"][name[4:] if name != "gen" else ""] = desc
except Exception as ex:
    out["import"] = type(ex).__name__ + ": " + str(ex)[:300]
    out["trace"] = traceback.format_exc()[-1200:]
# an application may import any of the generated packages first: forget them all and import them again in the opposite order
names = sorted(n for n in sys.modules if n == "gen" or n.startswith("gen."))
if out["import"] == "ok" and len(names) > 2:
    for n in names:
        del sys.modules[n]
    try:
        for n in reversed(names):
            importlib.import_module(n)
    except Exception as ex:
        out["errors"].append([n, "", "importing the generated packages in another order (%s first) fails: %s: %s" % (names[-1], type(ex).__name__, str(ex)[:200])])
json.dump(out, sys.stdout)
'''


def introspect(root, timeout=900):
    """import the generated package `gen` under root in a fresh interpreter and describe it"""
    try:
        p = subprocess.run([common.PY, "-c", INTROSPECT, root, common.REPO + "/src"], stdout=subprocess.PIPE, stderr=subprocess.PIPE,
                           text=True, timeout=timeout, env=dict(os.environ, PYTHONDONTWRITEBYTECODE="1"))
    except subprocess.TimeoutExpired:
        return {"import": "timeout", "modules": {}, "errors": []}
    try:
        return json.loads(p.stdout)
    except ValueError:
        return {"import": "crash: " + (p.stderr or p.stdout)[-400:], "modules": {}, "errors": []}


def descriptor_program(dset_path):
    """the schema as protoc's front end understood it (FileDescriptorSet -> plain data)"""
    from google.protobuf import descriptor_pb2 as d
    fds = d.FileDescriptorSet()
    with open(dset_path, "rb") as f:
        fds.ParseFromString(f.read())
    T = d.FieldDescriptorProto
    tn = {v: n[5:].lower() for n, v in T.Type.items()}
    msgs, enums, services = [], [], []

    def walk_msg(pkg, path, m):
        full = ".".join(([pkg] if pkg else []) + path)
        entries = {n.name: n for n in m.nested_type if n.options.map_entry}
        fields = []
        for f in m.field:
            rec = {"name": f.name, "num": f.number, "ptype": tn[f.type], "repeated": f.label == T.LABEL_REPEATED, "tname": f.type_name.lstrip("."),
                   "oneof": m.oneof_decl[f.oneof_index].name if f.HasField("oneof_index") and not f.proto3_optional else "",
                   "opt3": bool(f.proto3_optional), "ismap": False, "mapkey": "", "mapval": "", "mapvaltname": "", "mapvaltshort": "",
                   "tshort": ckey(f.type_name.split(".")[-1]), "json": f.json_name}
            short = f.type_name.split(".")[-1]
            if f.type == T.TYPE_MESSAGE and short in entries and f.type_name.lstrip(".") == full + "." + short:
                e = entries[short]
                rec.update(ismap=True, mapkey=tn[e.field[0].type], mapval=tn[e.field[1].type], mapvaltname=e.field[1].type_name.lstrip("."),
                           mapvaltshort=ckey(e.field[1].type_name.split(".")[-1]))
            fields.append(rec)
        msgs.append({"full": full, "pkg": pkg, "path": path, "key": ckey("".join(path)), "fields": fields})
        for e in m.enum_type:
            enums.append({"full": full + "." + e.name, "pkg": pkg, "path": path + [e.name], "key": ckey("".join(path + [e.name])), "values": [[v.name, v.number] for v in e.value]})
        for n in m.nested_type:
            if not n.options.map_entry:
                walk_msg(pkg, path + [n.name], n)

    for fd in fds.file:
        if fd.package == "google.protobuf":
            continue
        for e in fd.enum_type:
            enums.append({"full": ".".join(([fd.package] if fd.package else []) + [e.name]), "pkg": fd.package, "path": [e.name], "key": ckey(e.name),
                          "values": [[v.name, v.number] for v in e.value]})
        for m in fd.message_type:
            walk_msg(fd.package, [m.name], m)
        for s in fd.service:
            services.append({"pkg": fd.package, "name": s.name,
                             "methods": [{"name": me.name, "in": me.input_type.lstrip("."), "out": me.output_type.lstrip("."),
                                          "inshort": ckey(me.input_type.split(".")[-1]), "outshort": ckey(me.output_type.split(".")[-1]),
                                          "cs": bool(me.client_streaming), "ss": bool(me.server_streaming)} for me in s.method]})
    pkgs = sorted({m["pkg"] for m in msgs + enums})
    return {"msgs": msgs, "enums": enums, "services": services, "pkgpaths": [p.split(".") if p else [] for p in pkgs]}


def ckey(name):
    """class-name key: case and underscores are the business of the naming functions (C19), not of C03"""
    return "".join(c for c in name.lower() if c.isalnum())


def hint_str(h):
    if h["o"] == "":
        t = h["t"]
        return t.split(":")[0] + ":" + ckey(t.split(":")[1]) if ":" in t else t
    if h["o"] == "list":
        return "list[%s]" % hint_str(h["args"][0])
    if h["o"] == "dict":
        return "dict[%s,%s]" % (hint_str(h["args"][0]), hint_str(h["args"][1]))
    if h["o"] == "optional":
        return "optional[%s]" % ",".join(hint_str(a) for a in h["args"])
    return "%s[%s]" % (h["o"], ",".join(hint_str(a) for a in h["args"]))


def observed_model(intro):
    """introspection result -> uniform records for spec/Trace_Plugin.tla"""
    msgs, enums = [], []
    for mod, d in sorted(intro.get("modules", {}).items()):
        for cls, fs in sorted(d["messages"].items()):
            msgs.append({"mod": mod, "cls": ckey(cls), "fields": [{"num": f["num"], "ptype": f["ptype"], "mapk": (f["map"] + ["", ""])[0], "mapv": (f["map"] + ["", ""])[1],
                                                             "group": f["group"], "wraps": f["wraps"], "optional": f["optional"], "hint": hint_str(f["hint"])}
                                                            for f in fs]})
        for cls, ms in sorted(d["enums"].items()):
            enums.append({"mod": mod, "cls": ckey(cls), "numbers": [v for _, v in ms]})
    routes = []
    for mod, d in sorted(intro.get("modules", {}).items()):
        for base, hs in sorted(d["bases"].items()):
            for route, h in sorted(hs.items()):
                routes.append({"mod": mod, "route": route, "card": h["card"], "req": hint_str({"o": "", "t": h["req"]}), "rep": hint_str({"o": "", "t": h["rep"]})})
    return {"messages": msgs, "enums": enums, "routes": routes}


def front_end_rejected(ev):
    """protoc itself rejected the program (the plugin never ran): generator noise, never a plugin failure"""
    return ev["rc"] != 0 and "python_betterproto" not in ev["err"] and "Traceback" not in ev["err"]


def drop_rejected(ctx, events, *parallel):
    """remove programs protoc's front end rejects from events (and from lists parallel to it); too many = machinery error"""
    from .common import MachineryError
    keep = [k for k, e in enumerate(events) if not front_end_rejected(e)]
    n = len(events) - len(keep)
    ctx.notes["rejected_by_protoc_front_end"] = ctx.notes.get("rejected_by_protoc_front_end", 0) + n
    if n and n * 10 > len(events):
        raise MachineryError("%d of %d generated programs are rejected by protoc's front end: %s" % (n, len(events), [e["err"][-200:] for e in events if front_end_rejected(e)][:2]))
    return [[lst[k] for k in keep] for lst in (events,) + parallel]


def compile_event(workdir, name, protos, options=(), keep=False, rerun=None):
    """generate + import + describe: one event for Trace_Plugin"""
    import shutil
    r = generate(workdir, name, protos, options, rerun=rerun)
    ev = {"rc": r["rc"], "err": r["err"][-300:] if r["rc"] else "", "imp": "ok", "errors": [], "pydantic": "pydantic_dataclasses" in options,
          "stdmod": "betterproto.lib.pydantic.google.protobuf" if "pydantic_dataclasses" in options else "betterproto.lib.std.google.protobuf",
          "prog": {"msgs": [], "enums": [], "services": [], "pkgpaths": []}, "obs": {"messages": [], "enums": [], "routes": []}, "options": list(options),
          "case": {"protos": protos, "options": list(options)}}
    if r["rc"] == 0:
        try:
            ev["prog"] = descriptor_program(r["dset"])
        except Exception as ex:
            ev["rc"], ev["err"] = 99, "descriptor set unreadable: " + str(ex)[:100]
        intro = introspect(r["root"])
        ev["imp"] = intro["import"]
        ev["errors"] = [" ".join(map(str, e))[:300] for e in intro.get("errors", [])]
        ev["obs"] = observed_model(intro)
        ev["stubs"] = {m: d["stubs"] for m, d in intro.get("modules", {}).items() if d["stubs"]}
    if not keep:
        shutil.rmtree(r["root"], ignore_errors=True)
    return ev
