"""Schemas as data -> real classes.

A schema is {"types": {T: [field, ...]}, "enums": {E: [[name, number], ...]}} with
field = {name, num, kind, card, group, msg, enum, kkind, vkind}
  kind : one of the 15 scalar kinds | "enum" | "message" | "timestamp" | "duration" | "wrap" | "map"
  card : "implicit" | "optional" | "repeated" | "oneof" | "map"
  msg  : message type name (kind message, or map value kind message)
  enum : enum name (kind enum, or map value kind enum)
  vkind: wrapped scalar kind (kind wrap) / map value kind;  kkind: map key kind

From it this module builds (a) betterproto dataclasses through the public field API and
(b) google.protobuf dynamic classes (the reference), converts abstract values (absval JSON)
to objects of either implementation and reads objects back into abstract observations through
their public API.  Transport only.
"""
import dataclasses
import itertools
import struct
import sys
import types
from datetime import datetime, timedelta, timezone
from typing import Dict, List, Optional

import betterproto

from . import absval as av

SCALARS = ["int32", "int64", "uint32", "uint64", "sint32", "sint64", "bool", "fixed32", "sfixed32", "float",
           "fixed64", "sfixed64", "double", "string", "bytes"]
INTKINDS = ["int32", "int64", "uint32", "uint64", "sint32", "sint64", "fixed32", "sfixed32", "fixed64", "sfixed64"]
RANGE = {"int32": (-2**31, 2**31 - 1), "int64": (-2**63, 2**63 - 1), "uint32": (0, 2**32 - 1), "uint64": (0, 2**64 - 1),
         "sint32": (-2**31, 2**31 - 1), "sint64": (-2**63, 2**63 - 1), "enum": (-2**31, 2**31 - 1),
         "fixed32": (0, 2**32 - 1), "sfixed32": (-2**31, 2**31 - 1), "fixed64": (0, 2**64 - 1),
         "sfixed64": (-2**63, 2**63 - 1)}
PYT = {**{k: "int" for k in RANGE}, "bool": "bool", "float": "float", "double": "float", "string": "str", "bytes": "bytes"}
MAPKEYS = ["int32", "int64", "uint32", "uint64", "sint32", "sint64", "fixed32", "sfixed32", "fixed64", "sfixed64", "bool", "string"]
WRAPS = {"bool": "BoolValue", "bytes": "BytesValue", "double": "DoubleValue", "float": "FloatValue", "int32": "Int32Value",
         "int64": "Int64Value", "string": "StringValue", "uint32": "UInt32Value", "uint64": "UInt64Value"}


def F(name, num, kind, card="implicit", group="", msg="", enum="", kkind="", vkind="", pyname="", optmember=False):
    """name is the proto field name; pyname the Python attribute name when the two differ (keywords get a trailing _);
    optmember: a oneof member declared the way the plugin's pydantic flavour declares it (optional=True, default None)"""
    return {"name": name, "num": num, "kind": kind, "card": card, "group": group, "msg": msg, "enum": enum,
            "kkind": kkind, "vkind": vkind, "pyname": pyname or name, "optmember": bool(optmember)}


def py(f):
    return f.get("pyname") or f["name"]


_counter = itertools.count()

# ----------------------------------------------------------------------------- betterproto classes


_TWIN_KIND = {"int32": "string", "int64": "bytes", "uint32": "sint32", "uint64": "double", "sint32": "fixed64", "sint64": "string",
              "fixed32": "int64", "fixed64": "bool", "sfixed32": "string", "sfixed64": "uint32", "bool": "sfixed32", "float": "int32",
              "double": "string", "string": "sint64", "bytes": "fixed32", "enum": "enum"}


def twin_schema(schema):
    """a schema with the same type, field and enum *names* (hence textually identical annotations) but other scalar kinds and
    enum numbers: whatever the library remembers per class must not leak between same-named classes of different modules"""
    types_ = {}
    for ty, fields in schema["types"].items():
        out = []
        for f in fields:
            g = dict(f)
            if f["kind"] in _TWIN_KIND and f["card"] != "map":
                g["kind"] = _TWIN_KIND[f["kind"]]
            elif f["kind"] == "wrap":
                g["vkind"] = {"int32": "string", "string": "int32"}.get(f["vkind"], f["vkind"])
            out.append(g)
        types_[ty] = out
    enums = {e: [[n, (v + 3 if v else 0)] for n, v in ms] for e, ms in schema.get("enums", {}).items()}
    return {"types": types_, "enums": enums}


def card_twin_schema(schema):
    """same names, numbers and kinds, but singular <-> repeated flipped for the plain scalar fields: a decision the library
    remembers per (field metadata, wire type) must not leak between classes either"""
    types_ = {}
    for ty, fields in schema["types"].items():
        out = []
        for f in fields:
            g = dict(f)
            if f["kind"] in _TWIN_KIND and f["kind"] != "enum":
                if f["card"] == "implicit":
                    g["card"] = "repeated"
                elif f["card"] == "repeated":
                    g["card"] = "implicit"
            out.append(g)
        types_[ty] = out
    return {"types": types_, "enums": schema.get("enums", {})}


def _occurrences(num):
    def tag(wt):
        v, out = (num << 3) | wt, []
        while True:
            out.append((v & 0x7F) | (0x80 if v > 0x7F else 0))
            v >>= 7
            if not v:
                return bytes(out)
    return [tag(0) + b"\x03", tag(1) + bytes(8), tag(5) + bytes(4), tag(2) + b"\x02\x08\x04", tag(2) + b"\x00"]


def prime(classes, schema):
    """use every class once (metadata, map entry classes, defaults are created lazily on first use), and let it see every
    field number with every wire type (fitting or not)"""
    for ename in schema.get("enums", {}):
        for n in (99, 7, -7, 2, 3):          # numbers an enum may not define
            classes[ename].try_value(n)
    for ty, fields in schema["types"].items():
        cls = classes[ty]
        m = cls()
        bytes(m), m.to_dict()
        for f in fields:
            for occ in _occurrences(f["num"]):
                try:
                    bytes(cls().parse(occ))
                except Exception:
                    pass
        for f in fields:
            try:
                v = getattr(m, py(f))
            except AttributeError:
                continue
            if f["card"] == "map":
                key = {"string": "k", "bool": True}.get(f["kkind"], 1)
                val = classes[f["msg"]]() if f["vkind"] == "message" else classes[f["enum"]](0) if f["vkind"] == "enum" else \
                    {"string": "v", "bytes": b"v", "bool": True, "float": 1.0, "double": 1.0, "timestamp": av.us_dt(1000001), "duration": av.us_td(1000001)}.get(f["vkind"], 1)
                cls().parse(bytes(cls(**{py(f): {key: val}})))
            elif f["card"] == "repeated" and f["kind"] == "message":
                cls().parse(bytes(cls(**{py(f): [classes[f["msg"]]()]})))


def _decoy_reads_all_keys(schema):
    """a message class that has none of the schema's fields is handed documents with all of their keys (it ignores them):
    what the library remembers about a JSON key must be remembered per class"""
    import betterproto.casing as casing
    Decoy = dataclasses.make_dataclass("Decoy", [("zz_decoy", str, betterproto.string_field(1))], bases=(betterproto.Message,), eq=False, repr=False)
    keys = set()
    for fields in schema["types"].values():
        for f in fields:
            keys |= {f["name"], py(f), py(f).rstrip("_"), casing.camel_case(py(f)).rstrip("_")}
    doc = {k: 1 for k in sorted(keys)}
    Decoy().from_dict(doc)
    Decoy.from_dict(doc)


def make_bp(schema, modname=None, twin=True):
    if twin:
        _decoy_reads_all_keys(schema)
        for ts in (twin_schema(schema), card_twin_schema(schema)):
            prime(make_bp(ts, twin=False), ts)
    modname = modname or "verif_dyn_%d" % next(_counter)
    mod = types.ModuleType(modname)
    sys.modules[modname] = mod
    mod.List, mod.Optional, mod.Dict = List, Optional, Dict
    mod.datetime, mod.timedelta = datetime, timedelta
    classes = {}
    for ename, members in schema.get("enums", {}).items():
        ns = {"__module__": modname}
        for n, v in members:
            ns[n] = v
        ecls = type(betterproto.Enum)(ename, (betterproto.Enum,), ns)
        setattr(mod, ename, ecls)
        classes[ename] = ecls
    for ty, fields in schema["types"].items():
        spec = []
        for f in fields:
            k, card = f["kind"], f["card"]
            kw = {}
            if card == "optional":
                kw["optional"] = True
            if card == "oneof":
                kw["group"] = f["group"]
                if f.get("optmember"):
                    kw["optional"] = True
            if k == "map":
                vk = f["vkind"]
                vt = f["msg"] if vk == "message" else f["enum"] if vk == "enum" else "datetime" if vk == "timestamp" else "timedelta" if vk == "duration" else PYT[vk]
                ann = "Dict[%s, %s]" % (PYT[f["kkind"]], vt)
                fld = betterproto.map_field(f["num"], f["kkind"], "message" if vk in ("timestamp", "duration") else vk)
            else:
                if k == "message":
                    base, fld = f["msg"], betterproto.message_field(f["num"], **kw)
                elif k == "timestamp":
                    base, fld = "datetime", betterproto.message_field(f["num"], **kw)
                elif k == "duration":
                    base, fld = "timedelta", betterproto.message_field(f["num"], **kw)
                elif k == "wrap":
                    base = "Optional[%s]" % PYT[f["vkind"]]
                    fld = betterproto.message_field(f["num"], wraps=f["vkind"], **kw)
                elif k == "enum":
                    base, fld = f["enum"], betterproto.enum_field(f["num"], **kw)
                else:
                    base, fld = PYT[k], getattr(betterproto, k + "_field")(f["num"], **kw)
                if card == "repeated":
                    ann = "List[%s]" % base
                elif card == "optional" or f.get("optmember"):
                    ann = "Optional[%s]" % base
                else:
                    ann = base
            spec.append((py(f), ann, fld))
        cls = dataclasses.make_dataclass(ty, spec, bases=(betterproto.Message,), eq=False, repr=False)
        cls.__module__ = modname
        setattr(mod, ty, cls)
        classes[ty] = cls
    return classes


def conc_bp(schema, C, ty, val):
    """abstract message value {fname: aval} -> betterproto object built with the constructor"""
    kw = {}
    for f in schema["types"][ty]:
        a = val.get(f["name"])
        if a is None or a["k"] == "unset":
            continue
        kw[py(f)] = conc_bp_field(schema, C, f, a)
    return C[ty](**kw)


def conc_bp_field(schema, C, f, a):
    if a["k"] == "list":
        return [conc_bp_single(schema, C, f, f["kind"], x) for x in a["xs"]]
    if a["k"] == "map":
        return {conc_bp_single(schema, C, f, f["kkind"], k): conc_bp_single(schema, C, f, f["vkind"], v) for k, v in a["es"]}
    return conc_bp_single(schema, C, f, f["kind"], a)


def conc_bp_single(schema, C, f, kind, a):
    k = a["k"]
    if k == "int":
        n = av.unint(a)
        if kind == "enum" and a.get("foreign") and "F" in C:
            return C["F"].try_value(n)        # a member of ANOTHER enum class with that number (an enum value is an int)
        return C[f["enum"]].try_value(n) if kind == "enum" else n
    if k == "bool":
        return a["v"]
    if k == "f32":
        return struct.unpack("<f", bytes(a["b"]))[0]
    if k == "f64":
        return struct.unpack("<d", bytes(a["b"]))[0]
    if k == "str":
        return av.uncps(a["cp"])
    if k == "bytes":
        return bytearray(a["b"]) if a.get("ba") else bytes(a["b"])      # (a caller may hand in a bytearray)
    if k == "msg":
        if a.get("fresh"):
            return C[f["msg"]]()       # a newly constructed, never assigned message object (only used where that counts as present)
        # every non-unset member (defaults included) is passed to the constructor, which marks the message present
        return conc_bp(schema, C, f["msg"], a["m"])
    if k == "ts":
        dt = av.us_dt(av.unint(a["us"]))
        if a.get("tz"):            # the same instant, expressed in another time zone (offset in minutes)
            from datetime import timedelta, timezone
            try:
                dt = dt.astimezone(timezone(timedelta(minutes=a["tz"])))
            except OverflowError:
                pass
        return dt
    if k == "dur":
        return av.us_td(av.unint(a["us"]))
    if k == "wrapv":
        return conc_bp_single(schema, C, f, f["vkind"], a["v"])
    raise AssertionError(a)


def scalar_aval(kind, v):
    if kind in RANGE:
        return av.aint(v)
    if kind == "bool":
        return {"k": "bool", "v": bool(v)}
    if kind == "float":
        return av.f32(v)
    if kind == "double":
        return av.f64(v)
    if kind == "string":
        return {"k": "str", "cp": av.cps(v)}
    if kind == "bytes":
        return {"k": "bytes", "b": list(v)}
    raise AssertionError(kind)


class ObsError(Exception):
    pass


def _typed(kind, v):
    """the declared Python type of a kind holds v?  (used for the C17 well-typedness observation)"""
    if kind in RANGE:
        return isinstance(v, int) and not isinstance(v, bool) or (kind == "enum" and isinstance(v, int))
    if kind == "bool":
        return isinstance(v, bool)
    if kind in ("float", "double"):
        return isinstance(v, float)
    if kind == "string":
        return isinstance(v, str)
    if kind == "bytes":
        return isinstance(v, (bytes, bytearray))
    return True


def obs_bp_single(schema, f, kind, v):
    if kind == "message":
        if not isinstance(v, betterproto.Message):
            raise ObsError("field %s holds %r, not a message" % (f["name"], type(v).__name__))
        return {"k": "msg", "m": obs_bp(schema, v, f["msg"])}
    if kind == "timestamp":
        if not isinstance(v, datetime):
            raise ObsError("field %s holds %r, not a datetime" % (f["name"], type(v).__name__))
        return {"k": "ts", "us": av.rawint(av.dt_us(v))}
    if kind == "duration":
        if not isinstance(v, timedelta):
            raise ObsError("field %s holds %r, not a timedelta" % (f["name"], type(v).__name__))
        return {"k": "dur", "us": av.rawint(av.td_us(v))}
    if kind == "wrap":
        return {"k": "wrapv", "v": obs_bp_single(schema, f, f["vkind"], v)}
    if not _typed(kind, v):
        raise ObsError("field %s (%s) holds %r" % (f["name"], kind, type(v).__name__))
    if kind == "enum":
        if _MODULE_OF.get("strict") and isinstance(v, betterproto.Enum) and (type(v).__name__ != f["enum"] or _MODULE_OF.get("cur") not in (None, type(v).__module__)):
            raise ObsError("field %s (enum %s) holds a member of %s.%s" % (f["name"], f["enum"], type(v).__module__, type(v).__name__))
        return av.aint(int(v))
    return scalar_aval(kind, v)


_MODULE_OF = {}


def obs_decoded(schema, m, ty):
    """observation of a message that was just *decoded*: in addition every enum field must hold a member of its own enum class"""
    _MODULE_OF["strict"] = True
    try:
        return obs_bp(schema, m, ty)
    finally:
        _MODULE_OF["strict"] = False


def obs_bp(schema, m, ty):
    """public observation of a betterproto message: values, oneof selection, None-ness, nested presence"""
    out = {}
    _MODULE_OF["cur"] = type(m).__module__
    for f in schema["types"][ty]:
        k, name, card = f["kind"], f["name"], f["card"]
        if card == "oneof":
            sel, val = betterproto.which_one_of(m, f["group"])
            out[name] = obs_bp_single(schema, f, k, val) if sel == py(f) else {"k": "unset"}
            continue
        v = getattr(m, py(f))
        if card == "repeated":
            if not isinstance(v, list):
                raise ObsError("repeated field %s holds %r" % (name, type(v).__name__))
            out[name] = {"k": "list", "xs": [obs_bp_single(schema, f, k, x) for x in v]}
        elif card == "map":
            if not isinstance(v, dict):
                raise ObsError("map field %s holds %r" % (name, type(v).__name__))
            out[name] = {"k": "map", "es": [[obs_bp_single(schema, f, f["kkind"], kk), obs_bp_single(schema, f, f["vkind"] if f["vkind"] != "message" else "message", vv)]
                                            for kk, vv in v.items()]}
        elif card == "optional" or k == "wrap":
            out[name] = {"k": "unset"} if v is None else obs_bp_single(schema, f, k, v)
        elif k == "message":
            if not isinstance(v, betterproto.Message):
                raise ObsError("field %s holds %r, not a message" % (name, type(v).__name__))
            out[name] = obs_bp_single(schema, f, k, v) if betterproto.serialized_on_wire(v) else {"k": "unset"}
        else:
            out[name] = obs_bp_single(schema, f, k, v)
    return out


# ----------------------------------------------------------------------------- reference classes

_REFT = None


def _ref_types():
    global _REFT
    if _REFT is None:
        from google.protobuf import descriptor_pb2 as d
        T = d.FieldDescriptorProto
        _REFT = {"int32": T.TYPE_INT32, "int64": T.TYPE_INT64, "uint32": T.TYPE_UINT32, "uint64": T.TYPE_UINT64,
                 "sint32": T.TYPE_SINT32, "sint64": T.TYPE_SINT64, "bool": T.TYPE_BOOL, "fixed32": T.TYPE_FIXED32,
                 "sfixed32": T.TYPE_SFIXED32, "float": T.TYPE_FLOAT, "fixed64": T.TYPE_FIXED64,
                 "sfixed64": T.TYPE_SFIXED64, "double": T.TYPE_DOUBLE, "string": T.TYPE_STRING, "bytes": T.TYPE_BYTES,
                 "enum": T.TYPE_ENUM, "message": T.TYPE_MESSAGE}
    return _REFT


def camel(s):
    parts = s.split("_")
    return "".join(p[:1].upper() + p[1:] for p in parts)


def file_descriptor(schema, pkg):
    from google.protobuf import descriptor_pb2 as d
    T = d.FieldDescriptorProto
    rt = _ref_types()
    fd = d.FileDescriptorProto(name=pkg + ".proto", package=pkg, syntax="proto3")
    fd.dependency.extend(["google/protobuf/timestamp.proto", "google/protobuf/duration.proto", "google/protobuf/wrappers.proto"])
    for ename, members in schema.get("enums", {}).items():
        e = fd.enum_type.add(name=ename)
        nums = [v for _, v in members]
        if len(set(nums)) != len(nums):
            e.options.allow_alias = True
        for n, v in members:
            e.value.add(name=n, number=v)
    for ty, fields in schema["types"].items():
        m = fd.message_type.add(name=ty)
        groups = []
        for f in fields:
            if f["card"] == "oneof" and f["group"] not in groups:
                groups.append(f["group"])
        for g in groups:
            m.oneof_decl.add(name=g)
        nsynth = 0
        for f in fields:
            k = f["kind"]
            fp = m.field.add(name=f["name"], number=f["num"], json_name=_json_name(f["name"]))
            fp.label = T.LABEL_REPEATED if f["card"] in ("repeated", "map") else T.LABEL_OPTIONAL
            if k == "map":
                entry = m.nested_type.add(name=camel(f["name"]) + "Entry")
                entry.options.map_entry = True
                kf = entry.field.add(name="key", number=1, label=T.LABEL_OPTIONAL, type=rt[f["kkind"]], json_name="key")
                vf = entry.field.add(name="value", number=2, label=T.LABEL_OPTIONAL, json_name="value")
                _set_type(vf, f["vkind"], f, pkg)
                fp.type = T.TYPE_MESSAGE
                fp.type_name = ".%s.%s.%s" % (pkg, ty, entry.name)
            else:
                _set_type(fp, k, f, pkg)
            if f["card"] == "oneof":
                fp.oneof_index = groups.index(f["group"])
        for f, fp in zip(fields, m.field):
            if f["card"] == "optional":
                m.oneof_decl.add(name="_" + f["name"])
                fp.oneof_index = len(m.oneof_decl) - 1
                fp.proto3_optional = True
                nsynth += 1
    return fd


def _json_name(n):
    out, up = [], False
    for c in n:
        if c == "_":
            up = True
        elif up:
            out.append(c.upper())
            up = False
        else:
            out.append(c)
    return "".join(out)


def _set_type(fp, k, f, pkg):
    from google.protobuf import descriptor_pb2 as d
    T = d.FieldDescriptorProto
    rt = _ref_types()
    if k == "message":
        fp.type, fp.type_name = T.TYPE_MESSAGE, ".%s.%s" % (pkg, f["msg"])
    elif k == "enum":
        fp.type, fp.type_name = T.TYPE_ENUM, ".%s.%s" % (pkg, f["enum"])
    elif k == "timestamp":
        fp.type, fp.type_name = T.TYPE_MESSAGE, ".google.protobuf.Timestamp"
    elif k == "duration":
        fp.type, fp.type_name = T.TYPE_MESSAGE, ".google.protobuf.Duration"
    elif k == "wrap":
        fp.type, fp.type_name = T.TYPE_MESSAGE, ".google.protobuf." + WRAPS[f["vkind"]]
    else:
        fp.type = rt[k]


def make_ref(schema, pkg=None):
    from google.protobuf import descriptor_pool, message_factory
    from google.protobuf import timestamp_pb2, duration_pb2, wrappers_pb2
    from google.protobuf import descriptor_pb2 as d
    pkg = pkg or "verifref%d" % next(_counter)
    pool = descriptor_pool.DescriptorPool()
    for mod in (timestamp_pb2, duration_pb2, wrappers_pb2):
        pool.Add(d.FileDescriptorProto.FromString(mod.DESCRIPTOR.serialized_pb))
    fd = file_descriptor(schema, pkg)
    pool.Add(fd)
    out = {}
    for ty in schema["types"]:
        out[ty] = message_factory.GetMessageClass(pool.FindMessageTypeByName(pkg + "." + ty))
    out["__pool__"] = pool
    out["__pkg__"] = pkg
    return out


def fill_ref(schema, R, ty, val, m=None):
    m = m if m is not None else R[ty]()
    for f in schema["types"][ty]:
        a = val.get(f["name"])
        if a is None or a["k"] == "unset":
            continue
        name, k = f["name"], f["kind"]
        if a["k"] == "list":
            rep = getattr(m, name)
            for x in a["xs"]:
                if k in ("message", "timestamp", "duration", "wrap"):
                    _fill_ref_msg(schema, R, f, k, x, rep.add())
                else:
                    rep.append(_ref_scalar(x))
        elif a["k"] == "map":
            mp = getattr(m, name)
            for kk, vv in a["es"]:
                key = _ref_scalar(kk)
                if f["vkind"] in ("message", "timestamp", "duration"):
                    _fill_ref_msg(schema, R, f, f["vkind"], vv, mp[key])
                else:
                    mp[key] = _ref_scalar(vv)
        elif k in ("message", "timestamp", "duration", "wrap"):
            sub = getattr(m, name)
            sub.SetInParent()
            _fill_ref_msg(schema, R, f, k, a, sub)
        else:
            setattr(m, name, _ref_scalar(a))
    return m


def _ref_scalar(a):
    k = a["k"]
    if k == "int":
        return av.unint(a)
    if k == "bool":
        return a["v"]
    if k == "f32":
        return struct.unpack("<f", bytes(a["b"]))[0]
    if k == "f64":
        return struct.unpack("<d", bytes(a["b"]))[0]
    if k == "str":
        return av.uncps(a["cp"])
    if k == "bytes":
        return bytes(a["b"])
    raise AssertionError(a)


def _fill_ref_msg(schema, R, f, k, a, sub):
    if k == "message":
        fill_ref(schema, R, f["msg"], a["m"], sub)
    elif k == "timestamp":
        us = av.unint(a["us"])
        sub.seconds, sub.nanos = us // 10**6, (us % 10**6) * 1000
    elif k == "duration":
        us = av.unint(a["us"])
        s = abs(us) // 10**6
        n = (abs(us) % 10**6) * 1000
        sub.seconds, sub.nanos = (-s, -n) if us < 0 else (s, n)
    elif k == "wrap":
        sub.value = _ref_scalar(a["v"])


def obs_ref(schema, m, ty):
    out = {}
    for f in schema["types"][ty]:
        k, name, card = f["kind"], f["name"], f["card"]
        if card == "oneof":
            out[name] = _obs_ref_single(schema, f, k, getattr(m, name)) if m.WhichOneof(f["group"]) == name else {"k": "unset"}
        elif card == "repeated":
            out[name] = {"k": "list", "xs": [_obs_ref_single(schema, f, k, x) for x in getattr(m, name)]}
        elif card == "map":
            mp = getattr(m, name)
            out[name] = {"k": "map", "es": [[_obs_ref_single(schema, f, f["kkind"], kk), _obs_ref_single(schema, f, f["vkind"], mp[kk])]
                                            for kk in mp]}
        elif card == "optional" or k in ("message", "wrap"):
            out[name] = _obs_ref_single(schema, f, k, getattr(m, name)) if m.HasField(name) else {"k": "unset"}
        elif k in ("timestamp", "duration"):
            # implicit Timestamp/Duration: betterproto exposes no presence for them; compare values only
            out[name] = _obs_ref_single(schema, f, k, getattr(m, name))
        else:
            out[name] = _obs_ref_single(schema, f, k, getattr(m, name))
    return out


def _obs_ref_single(schema, f, kind, v):
    if kind == "message":
        return {"k": "msg", "m": obs_ref(schema, v, f["msg"])}
    if kind == "timestamp":
        return {"k": "tsn", "s": av.rawint(v.seconds), "n": av.rawint(v.nanos)}
    if kind == "duration":
        return {"k": "durn", "s": av.rawint(v.seconds), "n": av.rawint(v.nanos)}
    if kind == "wrap":
        return {"k": "wrapv", "v": _obs_ref_single(schema, f, f["vkind"], v.value)}
    if kind == "enum":
        if _MODULE_OF.get("strict") and isinstance(v, betterproto.Enum) and (type(v).__name__ != f["enum"] or _MODULE_OF.get("cur") not in (None, type(v).__module__)):
            raise ObsError("field %s (enum %s) holds a member of %s.%s" % (f["name"], f["enum"], type(v).__module__, type(v).__name__))
        return av.aint(int(v))
    return scalar_aval(kind, v)


def _ref_unknown(m):
    try:
        from google.protobuf import unknown_fields
        ufs = unknown_fields.UnknownFieldSet(m)
        return b"x" * len(ufs)   # only the count is observable portably; contents are compared via re-serialisation
    except Exception:
        return b""
