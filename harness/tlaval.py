"""Tiny parser for TLC's textual TLA+ values (records, sequences, sets, functions, strings, ints, booleans)."""
import re

_TOK = re.compile(r'\s*(<<|>>|\|->|:>|@@|[\[\]\{\}\(\),]|"(?:[^"\\]|\\.)*"|-?\d+|[A-Za-z_][A-Za-z0-9_]*)')


def tokenize(s):
    pos, out = 0, []
    while pos < len(s):
        m = _TOK.match(s, pos)
        if not m:
            if s[pos:].strip() == "":
                break
            raise ValueError("bad token at %r" % s[pos:pos + 30])
        out.append(m.group(1))
        pos = m.end()
    return out


class P:
    def __init__(self, toks):
        self.t, self.i = toks, 0

    def peek(self):
        return self.t[self.i] if self.i < len(self.t) else None

    def eat(self, x=None):
        tok = self.t[self.i]
        if x is not None and tok != x:
            raise ValueError("expected %s got %s" % (x, tok))
        self.i += 1
        return tok

    def value(self):
        tok = self.peek()
        if tok == "<<":
            self.eat()
            xs = []
            while self.peek() != ">>":
                xs.append(self.value())
                if self.peek() == ",":
                    self.eat()
            self.eat(">>")
            return xs
        if tok == "{":
            self.eat()
            xs = []
            while self.peek() != "}":
                xs.append(self.value())
                if self.peek() == ",":
                    self.eat()
            self.eat("}")
            return {"__set__": xs}
        if tok == "[":
            self.eat()
            d = {}
            while self.peek() != "]":
                k = self.eat()
                self.eat("|->")
                d[k] = self.value()
                if self.peek() == ",":
                    self.eat()
            self.eat("]")
            return d
        if tok == "(":
            self.eat()
            d = {}
            while self.peek() != ")":
                k = self.value()
                self.eat(":>")
                d[k if not isinstance(k, list) else tuple(k)] = self.value()
                if self.peek() == "@@":
                    self.eat()
            self.eat(")")
            return d
        self.eat()
        if tok.startswith('"'):
            return bytes(tok[1:-1], "utf-8").decode("unicode_escape")
        if tok == "TRUE":
            return True
        if tok == "FALSE":
            return False
        if re.fullmatch(r"-?\d+", tok):
            return int(tok)
        return tok  # model value / identifier


def parse(s):
    p = P(tokenize(s))
    v = p.value()
    if p.i != len(p.t):
        raise ValueError("trailing tokens")
    return v


_HDR = re.compile(r'^\\\* <(\w+)(?:\((.*?)\))? line ')


def parse_sim_file(path):
    """Yield (action, args, state-dict) for each state of a `-simulate file=` trace file."""
    text = open(path).read()
    blocks = re.split(r'\n(?=\\\* <)', text)
    out = []
    for b in blocks:
        m = _HDR.search(b.strip().splitlines()[0]) if b.strip() else None
        if not m:
            continue
        act, args = m.group(1), m.group(2)
        body = b.split("==", 1)[1]
        body = body.split("\n\n\n")[0]
        # conjunct list "/\ v = value"
        st = {}
        btxt = body.strip()
        if not btxt.startswith("/\\"):
            btxt = "/\\ " + btxt          # single-variable specs print "v = value" without a bullet
        for cm in re.finditer(r'/\\ (\w+) = (.*?)(?=\n/\\ |\Z)', btxt, re.S):
            val = cm.group(2).strip()
            val = re.sub(r'=+\s*$', '', val).strip()
            st[cm.group(1)] = parse(val)
        out.append((act, parse("<<" + args + ">>") if args else [], st))
    return out
