"""JSON text / Python dict -> parse tree for spec/PJson.tla (lexical level only: trusted transport)."""
import json
import math
import struct

from . import absval as av


def _f32(x):
    try:
        return True, list(struct.pack("<f", x))
    except (OverflowError, struct.error):
        return False, [0, 0, 0, 0]


def _num_from_float(x, isint=False, n=0):
    ok32, b32 = _f32(x)
    fint = {"ok": False, "n": av.rawint(0)}
    if not isint and math.isfinite(x) and x == math.floor(x) and abs(x) < 2**64:
        fint = {"ok": True, "n": av.rawint(int(x))}
    return {"t": "num", "isint": isint, "n": av.rawint(n), "fint": fint, "f64": list(struct.pack("<d", x)), "f32": b32, "f32ok": ok32}


def _strnode(s):
    strnum = {"ok": False, "f32": [0, 0, 0, 0], "f64": [0] * 8}
    try:
        if s and s.strip() == s and s[0] in "-0123456789" and s.lower() not in ("nan", "inf", "-inf", "infinity", "-infinity"):
            x = float(s)
            ok32, b32 = _f32(x)
            strnum = {"ok": ok32, "f32": b32, "f64": list(struct.pack("<d", x))}
    except ValueError:
        pass
    return {"t": "str", "cp": av.cps(s), "strnum": strnum}


def from_py(x):
    """tree of a Python object as produced by to_dict / json.loads"""
    if x is None:
        return {"t": "null"}
    if isinstance(x, bool):
        return {"t": "bool", "v": x}
    if isinstance(x, int):
        try:
            return _num_from_float(float(int(x)), True, int(x))
        except OverflowError:
            return {"t": "num", "isint": True, "n": av.rawint(int(x)), "fint": {"ok": False, "n": av.rawint(0)}, "f64": [0] * 8, "f32": [0] * 4, "f32ok": False}
    if isinstance(x, float):
        if math.isnan(x) or math.isinf(x):
            return {"t": "bad", "why": "bare NaN/Infinity"}
        return _num_from_float(x)
    if isinstance(x, str):
        return _strnode(x)
    if isinstance(x, (list, tuple)):
        return {"t": "arr", "xs": [from_py(v) for v in x]}
    if isinstance(x, dict):
        return {"t": "obj", "kv": [[av.cps(_key(k)), from_py(v)] for k, v in x.items()]}
    return {"t": "bad", "why": type(x).__name__}


def _key(k):
    """object keys as json.dumps writes them"""
    if isinstance(k, str):
        return k
    if isinstance(k, bool):
        return "true" if k else "false"
    if isinstance(k, int):
        return str(int(k))
    return "<unsupported key %r>" % (k,)


def from_text(text):
    """(valid_json, tree).  Python's json accepts bare NaN/Infinity, which is not JSON: reported as invalid."""
    bad = []

    def const(s):
        bad.append(s)
        return 0.0
    try:
        obj = json.loads(text, parse_constant=const, object_pairs_hook=lambda kv: _Pairs(kv))
    except ValueError:
        return False, {"t": "bad", "why": "syntax"}
    return (not bad), from_py_pairs(obj)


class _Pairs(list):
    pass


def from_py_pairs(x):
    if isinstance(x, _Pairs):
        return {"t": "obj", "kv": [[av.cps(k), from_py_pairs(v)] for k, v in x]}
    if isinstance(x, list):
        return {"t": "arr", "xs": [from_py_pairs(v) for v in x]}
    return from_py(x)


def schema_for_tla(schema):
    """adds code-point field names and enum member names (text the spec must look into)"""
    out = {"types": {}, "enums": schema.get("enums", {}), "enumcp": {}}
    for ty, fs in schema["types"].items():
        out["types"][ty] = [dict(f, ncp=av.cps(f["name"])) for f in fs]
    for e, ms in schema.get("enums", {}).items():
        out["enumcp"][e] = [{"name": av.cps(n), "num": av.rawint(v)} for n, v in ms]
    if not out["enumcp"]:
        out["enumcp"] = {"_": [{"name": [95], "num": av.rawint(0)}]}
    return out
