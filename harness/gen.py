"""Schema family and abstract-value generators (boundary domains + seeded random full range).
Values are produced in the abstract JSON form (absval) first; dyn.conc_* turns them into objects."""
import struct

from . import absval as av
from .dyn import F, MAPKEYS, RANGE, SCALARS, WRAPS

ENUM_E = [["Z", 0], ["A", 1], ["N", -1], ["B", 2], ["BIG", 2**31 - 1], ["MIN", -2**31]]
# another enum with other names for the same numbers, and a name of E for another number (used as a *foreign* member in E fields)
ENUM_F = [["F_ZERO", 0], ["F_ONE", 1], ["F_SEVEN", 7], ["F_MINUS", -1], ["B_", 99]]
VALUE_KINDS = SCALARS + ["enum"]


def wide_schema():
    """the 'Wide' family, split over several message types so that each stays small"""
    types = {}
    types["Inner"] = [F("x", 1, "sint64"), F("s", 2, "string")]
    types["Box"] = [F("items", 1, "int32", "repeated"), F("attrs", 2, "map", "map", kkind="string", vkind="int32"), F("n", 3, "int32")]     # a sub-message with containers
    types["Pick"] = [F("pa", 1, "int32", "oneof", group="p"), F("pb", 2, "string", "oneof", group="p"), F("po", 3, "bool", "optional")]    # a sub-message whose content can be "set to the zero value"
    types["Nil"] = []                      # a message type without fields (google.protobuf.Empty-like): only its presence carries information
    types["Node"] = [F("child", 1, "message", msg="Node"), F("kids", 2, "message", "repeated", msg="Node"), F("v", 3, "int32"),
                     F("peer", 4, "message", "optional", msg="Peer")]
    types["Peer"] = [F("node", 1, "message", msg="Node"), F("tag", 2, "string")]
    n = iter(range(1, 10000))
    types["TImpl"] = [F("i_" + k, next(n), k, enum="E" if k == "enum" else "") for k in VALUE_KINDS]
    n = iter(range(1, 10000))
    types["TOpt"] = [F("o_" + k, next(n), k, "optional", enum="E" if k == "enum" else "") for k in VALUE_KINDS] + \
                    [F("o_msg", 40, "message", "optional", msg="Inner"), F("o_ts", 41, "timestamp", "optional"), F("o_dur", 42, "duration", "optional")]
    n = iter(range(1, 10000))
    types["TRep"] = [F("r_" + k, next(n), k, "repeated", enum="E" if k == "enum" else "") for k in VALUE_KINDS] + \
                    [F("r_msg", 40, "message", "repeated", msg="Inner"), F("r_ts", 41, "timestamp", "repeated"),
                     F("r_dur", 42, "duration", "repeated")]
    n = iter(range(1, 10000))
    types["TOne"] = [F("g_" + k, next(n), k, "oneof", group="g", enum="E" if k == "enum" else "") for k in VALUE_KINDS] + \
                    [F("g_msg", 40, "message", "oneof", group="g", msg="Inner"), F("g_ts", 41, "timestamp", "oneof", group="g"),
                     F("g_dur", 42, "duration", "oneof", group="g"), F("h_a", 50, "int32", "oneof", group="h"), F("h_b", 51, "string", "oneof", group="h"),
                     F("h_c", 52, "message", "oneof", group="h", msg="Inner"), F("plain", 60, "int32")]
    # the same oneofs declared the way the plugin's pydantic flavour declares members (optional=True, default None)
    types["TOneP"] = [dict(f, optmember=(f["card"] == "oneof")) for f in types["TOne"]]
    # only scalars, some of them repeated: the lists are the only thing that can change without an assignment to the message
    types["TScal"] = [F("a", 1, "int32"), F("r", 2, "sint32", "repeated"), F("rs", 3, "string", "repeated"), F("e", 4, "enum", enum="E"),
                      F("name", 5, "string"), F("rb", 6, "bytes", "repeated"), F("rd", 7, "double", "repeated"), F("re", 8, "enum", "repeated", enum="E")]
    n = iter(range(1, 10000))
    types["TMapV"] = [F("mv_" + k, next(n), "map", "map", kkind="string", vkind=k, enum="E" if k == "enum" else "") for k in VALUE_KINDS] + \
                     [F("mv_msg", 40, "map", "map", kkind="string", vkind="message", msg="Inner"),
                      F("mv_ts", 41, "map", "map", kkind="string", vkind="timestamp"), F("mv_dur", 42, "map", "map", kkind="string", vkind="duration")]
    n = iter(range(1, 10000))
    types["TMapK"] = [F("mk_" + k, next(n), "map", "map", kkind=k, vkind="int32") for k in MAPKEYS] + \
                     [F("mk_i32_msg", 40, "map", "map", kkind="int32", vkind="message", msg="Inner")]
    n = iter(range(1, 10000))
    types["TWkt"] = [F("w_" + k, next(n), "wrap", vkind=k) for k in sorted(WRAPS)] + \
                    [F("ts", 20, "timestamp"), F("dur", 21, "duration"), F("m", 22, "message", msg="Inner"), F("bx", 23, "message", msg="Box"),
                     F("far", 536870911, "int32"), F("mid", 2048, "string")]
    types["TMix"] = [F("a", 1, "int32"), F("b", 2, "string", "optional"), F("c", 3, "message", msg="Inner"),
                     F("d", 4, "sint32", "repeated"), F("e", 5, "enum", "oneof", group="g", enum="E"),
                     F("f", 6, "bytes", "oneof", group="g"), F("g_m", 7, "message", "oneof", group="g", msg="Inner"),
                     F("h", 8, "map", "map", kkind="string", vkind="message", msg="Inner"), F("i", 9, "wrap", vkind="int32"),
                     F("j", 10, "double"), F("k", 11, "message", "repeated", msg="Inner"), F("l", 12, "timestamp"),
                     F("n", 13, "message", msg="Node"), F("z", 14, "message", msg="Nil"), F("zo", 15, "message", "optional", msg="Nil"),
                     F("zr", 16, "message", "repeated", msg="Nil"), F("g_z", 17, "message", "oneof", group="g", msg="Nil"),
                     F("bx", 18, "message", msg="Box"), F("g_bx", 19, "message", "oneof", group="g", msg="Box"), F("bxo", 20, "message", "optional", msg="Box"),
                     F("pk", 21, "message", msg="Pick"), F("pks", 22, "message", "repeated", msg="Pick")]
    # proto names that are Python keywords / need re-casing: the Python attribute differs from the proto (and JSON) name
    types["TNames"] = [F("from", 1, "string", pyname="from_"), F("in", 2, "int32", pyname="in_"), F("class", 3, "bool", "optional", pyname="class_"),
                       F("lambda", 4, "int64", "repeated", pyname="lambda_"), F("foo_bar", 5, "string"), F("camelCase", 6, "int32", pyname="camel_case"),
                       F("is", 7, "message", msg="Inner", pyname="is_"), F("global", 8, "sint32", "oneof", group="g", pyname="global_"),
                       F("other_member", 9, "string", "oneof", group="g"), F("HTTPStatus", 10, "int32", pyname="http_status"),
                       F("value", 11, "bytes"), F("type", 12, "string"), F("match", 13, "int32"), F("case", 14, "int64", "repeated")]
    return {"types": types, "enums": {"E": ENUM_E, "F": ENUM_F}}


# ------------------------------------------------------------------ boundary domains
def int_boundary(kind):
    lo, hi = RANGE[kind]
    s = {0, 1, lo, hi, hi - 1, lo + 1 if lo < 0 else 2, 127, 128, 16383, 16384, 2**31 - 1, 2**31, 2**32 - 1, 2**32, 2**63 - 1, -1, -128, -2**31, -2**31 - 1, -2**63}
    for k in range(6, 64, 7):          # sizes change at 7-bit boundaries (also of the zig-zag image)
        s |= {2**k, 2**k - 1, -2**k, -2**k - 1, 2**(k + 1), 2**(k + 1) - 1, -2**(k + 1), -2**(k + 1) - 1}
    if kind == "enum":
        s |= {2, 7, -7, 99}
    return sorted(x for x in s if lo <= x <= hi)


F32S = [0.0, -0.0, 1.0, -2.5, float("inf"), float("-inf"), float("nan"), 1.401298464324817e-45, 3.4028234663852886e38]
F64S = [0.0, -0.0, 1.0, -2.5, float("inf"), float("-inf"), float("nan"), 5e-324, 1.7976931348623157e308, 0.1]
STRS = ["", "a", "é", "\U0001F600", "a\u0000b", "中文 text", "x" * 130]
BYTS = [b"", b"\x00", b"\xff\x80", bytes(range(7)), b"\xfb\xff\xfe", b"q" * 200]
US_TS = [5000, 42000, 100000, 999000, 10, 100, 5, 1000, -5000, 1700000000005000, 0, 1, -1, 999999, 10**6, -10**6, -1500000, 1500000, 1700000000123456, 2**53 + 1, -62135596800 * 10**6,
         253402300799 * 10**6 + 999999, 951782400 * 10**6, -11644473600 * 10**6 + 1]
US_DUR = [0, 1, -1, 999999, -999999, 10**6, -10**6, -1500000, 1500000, 2**53 + 1, -(2**53) - 1, 315576000000 * 10**6,
          -315576000000 * 10**6, 315576000000 * 10**6 - 1, 86400 * 10**6, -86400 * 10**6 - 1]


def scalar_domain(kind):
    if kind == "enum":
        return [av.aint(x) for x in int_boundary(kind)] + [dict(av.aint(x), foreign=True) for x in (0, 1, 7, -1, 99)]
    if kind in RANGE:
        return [av.aint(x) for x in int_boundary(kind)]
    if kind == "bool":
        return [{"k": "bool", "v": False}, {"k": "bool", "v": True}]
    if kind == "float":
        return [av.f32(x) for x in F32S]
    if kind == "double":
        return [av.f64(x) for x in F64S]
    if kind == "string":
        return [{"k": "str", "cp": av.cps(s)} for s in STRS]
    if kind == "bytes":
        return [{"k": "bytes", "b": list(b)} for b in BYTS] + [{"k": "bytes", "b": [1, 2, 3], "ba": True}]
    raise AssertionError(kind)


def inner_domain():
    return [{"k": "msg", "m": {"x": av.aint(0), "s": {"k": "str", "cp": []}}},
            {"k": "msg", "m": {"x": av.aint(-3), "s": {"k": "str", "cp": []}}},
            {"k": "msg", "m": {"x": av.aint(2**63 - 1), "s": {"k": "str", "cp": av.cps("é")}}}]


def nothing_given(schema, ty, m):
    """would the constructor of ty get no keyword argument at all for the abstract message value m (although ty has fields) ?"""
    return bool(schema["types"][ty]) and all(v.get("k") == "unset" for v in m.values())


def msg_domain(schema, ty):
    """the empty message, and one message per scalar field of the type holding the first (zero) and the last value of that
    field's domain: a oneof member / optional field set to its zero value, a list with one zero, ..."""
    base = fresh(schema, ty)
    # (a message object none of whose fields was given is the same thing as a fresh one - see the "fresh" marker - unless every
    #  field has a value of its own even when empty, like a list)
    out = [] if nothing_given(schema, ty, base) else [{"k": "msg", "m": base}]
    for f in schema["types"][ty]:
        if f["kind"] == "message" or f.get("vkind") == "message":
            continue
        dom = [v for v in field_domain(schema, f) if v.get("k") != "unset"]
        zero = default_of(schema, dict(f, card="implicit")) if f["card"] in ("oneof", "optional") and f["kind"] not in ("wrap", "timestamp", "duration") else dom[0]
        for v in ([zero, dom[-1]] if len(dom) > 1 else dom):
            if v != base[f["name"]]:
                out.append({"k": "msg", "m": dict(base, **{f["name"]: v})})
    return out[:7]


def single_domain(schema, f, kind):
    if kind == "message":
        if f["msg"] == "Inner":
            return inner_domain()
        return msg_domain(schema, f["msg"])
    if kind == "timestamp":
        return [{"k": "ts", "us": av.rawint(u)} for u in US_TS] + \
               [{"k": "ts", "us": av.rawint(u), "tz": tz} for u, tz in ((1700000000123456, 330), (0, -480), (-1, 840), (951782400 * 10**6, -720), (5000, 1))]
    if kind == "duration":
        return [{"k": "dur", "us": av.rawint(u)} for u in US_DUR]
    if kind == "wrap":
        return [{"k": "wrapv", "v": v} for v in scalar_domain(f["vkind"])]
    return scalar_domain(kind)


def default_of(schema, f):
    k, card = f["kind"], f["card"]
    if card == "repeated":
        return {"k": "list", "xs": []}
    if card == "map":
        return {"k": "map", "es": []}
    if card in ("optional", "oneof") or k in ("message", "wrap"):
        return {"k": "unset"}
    if k == "timestamp":
        return {"k": "ts", "us": av.rawint(0)}
    if k == "duration":
        return {"k": "dur", "us": av.rawint(0)}
    if k in RANGE:
        return av.aint(0)
    return {"bool": {"k": "bool", "v": False}, "float": av.f32(0.0), "double": av.f64(0.0), "string": {"k": "str", "cp": []},
            "bytes": {"k": "bytes", "b": []}}[k]


def fresh(schema, ty):
    return {f["name"]: default_of(schema, f) for f in schema["types"][ty]}


def field_domain(schema, f):
    """values of one field: every presence mode x boundary value"""
    k, card = f["kind"], f["card"]
    if card == "repeated":
        dom = single_domain(schema, f, k)
        out = [{"k": "list", "xs": []}] + [{"k": "list", "xs": [x]} for x in dom]
        out += [{"k": "list", "xs": [dom[i], dom[(i + 1) % len(dom)]]} for i in range(len(dom))]
        out.append({"k": "list", "xs": dom[:5]})
        return out
    if card == "map":
        kd = scalar_domain(f["kkind"])
        vd = single_domain(schema, f, f["vkind"]) if f["vkind"] != "message" else inner_domain()
        out = [{"k": "map", "es": []}]
        out += [{"k": "map", "es": [[kd[i % len(kd)], v]]} for i, v in enumerate(vd)]
        out += [{"k": "map", "es": [[kk, vd[i % len(vd)]]]} for i, kk in enumerate(kd)]
        seen, es = set(), []
        for i, kk in enumerate(kd[:4]):
            key = repr(kk)
            if key not in seen:
                seen.add(key)
                es.append([kk, vd[(i + 1) % len(vd)]])
        out.append({"k": "map", "es": es})
        return out
    dom = single_domain(schema, f, k)
    if k == "message" and card in ("optional", "oneof"):
        # a fresh, never assigned message object given to an explicit-presence field is present (and empty)
        dom = dom + [{"k": "msg", "m": fresh(schema, f["msg"]), "fresh": True}]
    if card in ("optional", "oneof") or k in ("message", "wrap"):
        return [{"k": "unset"}] + dom
    return dom


def is_default(schema, f, v):
    return v == default_of(schema, f)


# ------------------------------------------------------------------ random full range
def rint(kind, rnd):
    lo, hi = RANGE[kind]
    c = rnd.random()
    if c < 0.2:
        return rnd.choice(int_boundary(kind))
    if c < 0.45:
        return rnd.randint(max(lo, -300), min(hi, 300))
    v = rnd.getrandbits(rnd.randint(1, 64))
    if lo < 0 and rnd.random() < .5:
        v = -v
    return min(max(v, lo), hi)


def rscalar(kind, rnd):
    if kind == "enum" and rnd.random() < .15:
        return dict(av.aint(rnd.choice([0, 1, 7, -1, 99])), foreign=True)
    if kind in RANGE:
        return av.aint(rint(kind, rnd))
    if kind == "bool":
        return {"k": "bool", "v": rnd.random() < .5}
    if kind == "float":
        if rnd.random() < .4:
            return av.f32(rnd.choice(F32S))
        return {"k": "f32", "b": list(struct.pack("<I", rnd.getrandbits(32)))}
    if kind == "double":
        if rnd.random() < .4:
            return av.f64(rnd.choice(F64S))
        return {"k": "f64", "b": list(struct.pack("<Q", rnd.getrandbits(64)))}
    if kind == "string":
        n = rnd.randint(0, 6)
        alpha = ["a", "Z", "é", "中", "\U0001F600", "\x00", " ", "߿", "ࠀ", "￿", "\U00010000", "\U0010ffff", "\x7f", "\x80"]
        return {"k": "str", "cp": [ord(rnd.choice(alpha)) for _ in range(n)]}
    if kind == "bytes":
        v = {"k": "bytes", "b": [rnd.getrandbits(8) for _ in range(rnd.randint(0, 6))]}
        if rnd.random() < .15:
            v["ba"] = True
        return v
    raise AssertionError(kind)


def rsingle(schema, f, kind, rnd, depth):
    if kind == "message":
        return {"k": "msg", "m": rmsg(schema, f["msg"], rnd, depth + 1)}
    if kind == "timestamp":
        if rnd.random() < .3:
            return {"k": "ts", "us": av.rawint(rnd.choice(US_TS))}
        us = rnd.randint(-62135596800 * 10**6, 253402300799 * 10**6 + 999999)
        c = rnd.random()
        if c < .25:
            us -= us % 1000                      # whole milliseconds (3 fractional digits), incl. 1..99 ms
            if c < .1:
                us -= us % 10**6
                us += rnd.randint(0, 99) * 1000
        elif c < .35:
            us -= us % 10**6
        if rnd.random() < .3:       # an aware datetime of another zone denotes the same instant
            return {"k": "ts", "us": av.rawint(us), "tz": rnd.choice([60, -300, 330, 765, -720, 840, 1, -1])}
        return {"k": "ts", "us": av.rawint(us)}
    if kind == "duration":
        if rnd.random() < .3:
            return {"k": "dur", "us": av.rawint(rnd.choice(US_DUR))}
        lim = rnd.choice([10**7, 10**13, 315576000000 * 10**6])
        return {"k": "dur", "us": av.rawint(rnd.randint(-lim, lim))}
    if kind == "wrap":
        return {"k": "wrapv", "v": rscalar(f["vkind"], rnd)}
    return rscalar(kind, rnd)


def rmsg(schema, ty, rnd, depth=0, density=None):
    fields = schema["types"][ty]
    out = fresh(schema, ty)
    density = density if density is not None else rnd.choice([0.15, 0.4, 0.8])
    if depth > 2:
        density = 0.0 if depth > 3 else density * 0.4
    groups = {}
    for f in fields:
        if f["card"] == "oneof":
            groups.setdefault(f["group"], []).append(f)
    chosen = {g: (rnd.choice(ms) if rnd.random() < .7 else None) for g, ms in groups.items()}
    for f in fields:
        k, card = f["kind"], f["card"]
        if card == "oneof":
            if chosen[f["group"]] is f:
                out[f["name"]] = rsingle(schema, f, k, rnd, depth)
            continue
        if rnd.random() > density:
            continue
        if card == "repeated":
            out[f["name"]] = {"k": "list", "xs": [rsingle(schema, f, k, rnd, depth) for _ in range(rnd.randint(0, 3))]}
        elif card == "map":
            es, seen = [], set()
            for _ in range(rnd.randint(0, 3)):
                kk = rscalar(f["kkind"], rnd)
                if repr(kk) in seen:
                    continue
                seen.add(repr(kk))
                es.append([kk, rsingle(schema, f, f["vkind"], rnd, depth)])
            out[f["name"]] = {"k": "map", "es": es}
        else:
            out[f["name"]] = rsingle(schema, f, k, rnd, depth)
            if k == "message" and card == "implicit" and nothing_given(schema, f["msg"], out[f["name"]]["m"]):
                out[f["name"]] = {"k": "unset"}          # (an object nothing was given to, given to a plain field, is not present)
    return out


def size_hint(v):
    """rough cost of an abstract value for shard balancing"""
    if isinstance(v, dict):
        return 1 + sum(size_hint(x) for x in v.values())
    if isinstance(v, list):
        return 1 + sum(size_hint(x) for x in v) if v and not isinstance(v[0], int) else 1 + len(v) // 8
    return 0
