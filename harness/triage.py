"""debug helper: run a property's check in-process and summarise violations by clause/tag"""
import sys, json, collections, os
sys.path.insert(0, "/verif"); sys.path.insert(0, "/repo/src")
from harness import framework
def main(pid, tier="quick"):
    import importlib
    mod = importlib.import_module("harness.props." + pid.lower())
    ctx = framework.Ctx(pid.upper(), mod.LEVEL, tier, int(os.environ.get("VERIF_SEED", "0")))
    mod.run(ctx)
    c = collections.Counter()
    ex = {}
    for clause, case in ctx.violations:
        tag = (case.get("case") or {}).get("tag", "") if isinstance(case, dict) else ""
        key = (clause, (case.get("case") or {}).get("ty", ""), tag, str(case.get("_detail"))[:60])
        c[key] += 1
        ex.setdefault(key, case)
    for k, n in sorted(c.items(), key=lambda kv: -kv[1])[:60]:
        print(n, k)
    print("KF hits:", {k: v[0] for k, v in ctx.kf_hits.items()})
    return ctx, ex
if __name__ == "__main__":
    main(*sys.argv[1:])
