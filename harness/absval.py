"""Abstract-value JSON <-> Python objects.  Pure transport: base-128 digit sequences for
integers, code points for text, IEEE byte patterns for floats.  No property is decided here."""
import struct
from datetime import datetime, timedelta, timezone

EPOCH = datetime(1970, 1, 1, tzinfo=timezone.utc)
US = timedelta(microseconds=1)


def mag(n):
    out = []
    while n:
        out.append(n & 127)
        n >>= 7
    return out


def aint(v):
    v = int(v)
    return {"k": "int", "neg": v < 0, "mag": mag(abs(v))}


def rawint(v):
    v = int(v)
    return {"neg": v < 0, "mag": mag(abs(v))}


def unmag(m):
    n = 0
    for d in reversed(m):
        n = (n << 7) | d
    return n


def unint(a):
    n = unmag(a["mag"])
    return -n if a["neg"] else n


def f32(v):
    return {"k": "f32", "b": list(struct.pack("<f", v))}


def f64(v):
    return {"k": "f64", "b": list(struct.pack("<d", v))}


def cps(s):
    return [ord(c) for c in s]


def uncps(c):
    return "".join(chr(x) for x in c)


def dt_us(dt):
    """microseconds since the epoch of a datetime (naive = UTC), exact integer arithmetic"""
    if dt.tzinfo is None:
        dt = dt.replace(tzinfo=timezone.utc)
    return (dt - EPOCH) // US


def td_us(td):
    return td // US


def us_dt(us):
    return EPOCH + timedelta(microseconds=us)


def us_td(us):
    return timedelta(microseconds=us)
