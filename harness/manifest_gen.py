"""Generates MANIFEST.json from the table below (kept in one place so it stays valid)."""
import json, os, sys
HERE = os.path.dirname(os.path.dirname(os.path.abspath(__file__)))
CHECKS = {
 "C16": ("model_checking", "TLC model checking of spec/Varint.tla + BigInt.tla theorems (MC_Varint, MC_BigInt) and TLC trace validation (Trace_Varint) of events recorded from encode_varint/size_varint/dump_varint/decode_varint/load_varint and one-field messages of betterproto and the reference",
         "Exhaustive small-scope model checking of the scalar-layer specification (round trip, canonical form, size, zig-zag, two's complement, padding, too-long/EOF rejection; digit arithmetic sound against TLC's native integers; betterproto's encode/decode loops as a step machine) plus TLC validation of tens of thousands of recorded primitive events: exhaustive below 2^14 (quick) / 2^21 (thorough), every 2^k boundary, random 64-bit, all byte strings <=2 bytes and the continuation family as decoder input, all scalar kinds cross-checked byte-for-byte with google.protobuf.",
         "Trusted: TLC/SANY, CommunityModules Json, struct.pack for IEEE bit patterns, int<->base-128 digit transport; google.protobuf as reference (its events are validated against the same spec).", "5.1, 6/C16"),
 "C12": ("model_checking", "TLC model checking of spec/AsyncChannel.tla (faithful asyncio.Queue/Task/Future + AsyncChannel model; every placement of Wake/Cancel among atomic steps; invariants + liveness under fairness), replay of TLC-simulated behaviours on the real asyncio classes with per-step state comparison, and TLC trace validation (Trace_AbsChannel over spec/AbsChannel.tla) of the call/return logs of those runs and of seeded model-free random schedules",
         "All schedules of the FIFO ready queue for a family of small programs (1-2 senders, send/send_from, separate closer, 1-3 receivers using receive()/async-for, bounded and unbounded buffers, one cancellation anywhere, gates released up to one operation ahead) are explored exhaustively on a line-by-line model of AsyncChannel over CPython's Queue/Task/Future; the model is bound to the code by replaying simulated behaviours on the real classes (every step compared, internals included) and the property itself is decided on the real executions by stepping their public call/return logs through the abstract channel specification.",
         "Trusted: steploop.py reproduces the stock loop's FIFO ready queue; CPython 3.12 asyncio semantics as modelled (conformance-checked); senders/flush task are not cancelled in the explored programs.", "5.5, 6/C12"),
 "C01": ("model_checking", "TLC model checking of the round-trip theorems of spec/Codec.tla (MC_Codec: SpecDecode(SpecEncode(m)) = Norm(m), any field order) and TLC trace validation (Trace_Codec op rt) of encode/decode/compare/re-encode events recorded from betterproto on the Wide schema family",
         "The binary format is specified independently of betterproto (Codec.tla: ideal decoder, canonical encoder, value normal form); its round-trip theorem is model-checked on the boundary family, and every recorded event of the real code (each field kind x boundary value x presence mode alone, pairwise, and thousands of seeded random full-range messages incl. recursion, maps over every key kind, wrappers, Timestamp/Duration) is judged by TLC: the bytes must spec-decode to the value the message was built from, the parsed message must be observed equal to it (values, oneof selection, None-ness, nested presence), == must hold and re-encoding must be byte-identical.",
         "Trusted: abstract value <-> object transport (harness/dyn.py), struct for IEEE bit patterns; classes built through the public field API (plugin output is C03).", "5.2, 6/C01"),
 "C02": ("model_checking", "TLC model checking of LegalEnc (spec/MC_Codec.tla: nondeterministic encoder; decoder-insensitivity theorem) with every terminal encoding exported and decoded by betterproto and by google.protobuf, plus cross-serialisation of Wide-family values; all observations judged by TLC (Trace_Codec op xdec)",
         "LegalEnc enumerates, for a pool of small messages, every field order, packed / unpacked / chunked repeated scalars, padded varints, shadowed singular scalars and oneof members and interleaved unknown fields (bounded number of non-canonical choices); TLC proves the ideal decoder insensitive to them and each exported encoding is fed to both implementations, whose observations must equal the encoded value; Wide-family values serialised by either implementation are decoded by the other.  The reference is bound to the same spec (a disagreement there is a machinery error).",
         "Trusted: google.protobuf (upb) as reference; float values compared numerically (NaN identified, -0.0 == 0.0); merging of split sub-messages is outside the statement.", "5.2, 6/C02"),
 "C09": ("model_checking", "TLC model checking of the size theorem SpecSize = Len(SpecEncode) (MC_Codec.SizeAgrees) and TLC trace validation (Trace_Codec op len) of len / bytes / dump / dump(SIZE_DELIMITED) / SerializeToString events on constructed and decoded messages",
         "Every constructed Wide-family message (boundary values x presence modes incl. empty-but-present optional/oneof/nested members, pairs, random) and every message decoded from a LegalEnc encoding (unknown fields, shadowed members) is asked for len(), bytes(), dump(), dump(SIZE_DELIMITED) and SerializeToString(); TLC checks len = Len(bytes), dump = bytes and the delimited form = EncVarint(Len) o bytes.",
         "Trusted: as C01.", "5.2, 6/C09"),
}
NOT_YET = {}
def main():
    props = [json.loads(l) for l in open(os.path.join(HERE, "properties.jsonl"))]
    checks = []
    for pid, (level, technique, text, note, ref) in sorted(CHECKS.items()):
        checks.append({"property_id": pid, "quick_cmd": "./check %s --tier quick" % pid, "thorough_cmd": "./check %s --tier thorough" % pid,
                       "evidence_file": "/verif/evidence/%s.json" % pid, "replay_cmd_template": "./check %s --replay {path}" % pid,
                       "engine": "tlc", "level_claimed": {"category": level, "text": text, "design_ref": "DESIGN.md section " + ref},
                       "level_note": note, "technique": technique})
    na = [{"property_id": p["id"], "reason": NOT_YET.get(p["id"], "check not built yet in this round (planned per DESIGN.md section 11; not a claim of inapplicability)")}
          for p in props if p["id"] not in CHECKS]
    hooks = json.load(open(os.path.join(HERE, "harness", "hooks.json"))) if os.path.exists(os.path.join(HERE, "harness", "hooks.json")) else {}
    man = {"version": 1,
           "setup_cmd": "cd /verif && /venv/bin/python -m harness.setup",
           "hooks": {"guard": "BETTERPROTO_VERIF_TRACE", "enable": hooks.get("enable", "no source hooks are needed by the registered checks; drivers import /repo/src directly"),
                     "baseline_off_cmd": "cd /repo && /venv/bin/python -m pytest -ra -q -p no:cacheprovider --timeout=900 --continue-on-collection-errors",
                     "source_commits": hooks.get("source_commits", []), "add_only": True},
           "engines": [{"name": "tlc", "path": "/verif/spec", "serves_properties": sorted(CHECKS), "kind_free_text": "explicit TLA+ specification checked with TLC 1.8 (exhaustive small-scope model checking, simulation, and batch trace validation of events recorded from the implementation); Python harness only transports values"}],
           "checks": checks, "not_applicable": na,
           "notes": "Every check: ./check <ID> --tier quick|thorough (env VERIF_SEED). Exit 0 held, 1 VIOLATION, 2 machinery error."}
    json.dump(man, open(os.path.join(HERE, "MANIFEST.json"), "w"), indent=1)
if __name__ == "__main__":
    main()
