"""Check context: runs the TLC steps of a property's pipeline, collects verdicts printed by
TLC, classifies failures against known_findings.txt and writes the evidence file.

The only place a property is *decided* is inside TLC (model checking of MC_* configs and
evaluation of the Trace_* specs on recorded events).  This module counts and reports.
"""
import concurrent.futures as cf
import hashlib
import json
import multiprocessing as mp
import os
import random
import re
import sys
import time
import traceback

from . import common
from .common import MachineryError, eprint


def load_known_findings():
    path = os.path.join(common.VERIF, "known_findings.txt")
    out = {}
    if os.path.exists(path):
        for line in open(path):
            line = line.strip()
            m = re.match(r"finding:\s+property=(\w+)\s+id=(\w+)\s+(.*)$", line)
            if m:
                out[(m.group(1), m.group(2))] = m.group(3)
    return out


class Ctx:
    def __init__(self, pid, level, tier, seed, replay=None):
        self.pid, self.level, self.tier, self.seed, self.replay = pid, level, tier, seed, replay
        self.t0 = time.time()
        self.work = common.workdir(pid)
        self.rnd = random.Random(seed)
        self.states = 0
        self.transitions = 0
        self.mc_runs = []          # per TLC model-checking run: module, cfg, states, transitions, depth, wall
        self.evaluations = 0
        self.accepted = 0
        self.distinct = set()
        self.samples = []
        self.violations = []       # (clause, case)
        self.kf_hits = {}          # kf id -> [count, example]
        self.assumptions = []
        self.notes = {}
        self.known = load_known_findings()
        self.nid = 0
        self.rule = ""
        self.coverage_actions = {}
        self.exhaustive = False
        self.checker_cmds = []
        self.phases = []           # (what, events, seconds, started at) -- printed with VERIF_TIMING=1
        self.drift = {}            # trace module -> [(event id, what differs from the faithful model)]  (notes, never verdicts)

    # ------------------------------------------------------------------ model checking
    def mc(self, module, cfg_text, name=None, workers=None, timeout=1500, coverage=True, expect_actions=(),
           simulate=None, depth=None, env=None, heap="8g", allow_violation=False, cwd=None):
        """Exhaustive (or simulated) TLC run of spec/<module>.tla under the given cfg text."""
        name = name or module
        cfg = common.write_cfg(os.path.join(self.work, name + ".cfg"), cfg_text)
        r = common.tlc(module, cfg=cfg, workers=workers or common.NCPU, timeout=timeout, coverage=coverage,
                       simulate=simulate, depth=depth, seed=self.seed if simulate else None, env=env, heap=heap,
                       cwd=cwd or common.SPEC)
        if not r.ok and not r.violated:
            raise MachineryError("TLC failed on %s/%s:\n%s" % (module, name, r.out[-2500:]))
        self.checker_cmds.append("tlc -config %s.cfg %s" % (name, module))
        if r.rc == 124:
            raise MachineryError("TLC timeout on %s/%s" % (module, name))
        self.states += r.distinct
        self.transitions += r.generated
        cov = r.coverage() if coverage else {}
        for a, (d, t) in cov.items():
            od, ot = self.coverage_actions.get(a, (0, 0))
            self.coverage_actions[a] = (od + d, ot + t)
        self.mc_runs.append({"module": module, "config": name, "distinct_states": r.distinct,
                             "states_generated": r.generated, "depth": r.depth, "wall_s": round(r.wall, 1),
                             "violated": r.violated})
        for a in expect_actions:
            if cov.get(a, (0, 0))[1] == 0:
                raise MachineryError("vacuity: action %s of %s never taken under %s" % (a, module, name))
        if r.violated and not allow_violation:
            trace = self._counterexample(r.out)
            self.violations.append(("model:%s:%s" % (name, r.violated), {"module": module, "config": name,
                                                                       "cfg": cfg_text, "counterexample": trace}))
        return r

    @staticmethod
    def _counterexample(out):
        i = out.find("Error: The behavior up to this point is")
        if i < 0:
            i = out.find("Error:")
        return out[i:i + 6000]

    # ------------------------------------------------------------------ trace validation
    def new_ids(self, events):
        for e in events:
            self.nid += 1
            e["id"] = self.nid
        return events

    def validate(self, module, events, header=None, shard=4000, cfg_text=None, timeout=1500, heap="4g",
                 extra_files=None, weight=None):
        """Validate recorded events against spec/<module>.tla (a Trace_* spec).  Each shard file is
        {"hdr": header, "events": [...]}; the spec prints <<"V", id, clause, kf>> for every event.
        Returns {id: (clause, kf)}."""
        if not events:
            return {}
        t_val = time.time()
        self.new_ids(events)
        cfg_text = cfg_text or "SPECIFICATION TraceSpec\nCHECK_DEADLOCK FALSE\n"
        cfg = common.write_cfg(os.path.join(self.work, module + ".cfg"), cfg_text)
        shards = []
        if weight:
            cur, w = [], 0
            for e in events:
                cur.append(e)
                w += weight(e)
                if w >= shard:
                    shards.append(cur)
                    cur, w = [], 0
            if cur:
                shards.append(cur)
        else:
            n = max(1, min(len(events) // max(1, common.NCPU) + 1, shard))
            shards = [events[i:i + n] for i in range(0, len(events), n)]
        paths = []
        for k, sh in enumerate(shards):
            p = os.path.join(self.work, "%s-shard%d-%d.json" % (module, self.nid, k))
            # the "case" member is the replay recipe: kept on our side, not part of what the spec judges
            common.dump_json(p, {"hdr": header or {}, "events": [{k: v for k, v in e.items() if k != "case"} for e in sh]})
            paths.append(p)
        verdicts = {}

        def one(p):
            return common.tlc(module, cfg=cfg, workers=1, timeout=timeout, env={"TRACE_FILE": p}, heap=heap)

        with cf.ThreadPoolExecutor(max_workers=common.NCPU) as ex:
            results = list(ex.map(one, paths))
        self.checker_cmds.append("tlc -config %s.cfg %s  (TRACE_FILE=<shard>, %d shards)" % (module, module, len(paths)))
        for p, r, sh in zip(paths, results, shards):
            got = set()
            for v in r.printed():
                if isinstance(v, list) and len(v) >= 4 and v[0] == "V":
                    if v[1] not in got:       # TLC may evaluate an action (and its PrintT) more than once
                        verdicts[v[1]] = (v[2], v[3], v[4] if len(v) > 4 else None)
                    got.add(v[1])
                elif isinstance(v, list) and len(v) >= 3 and v[0] == "D":
                    self.drift.setdefault(module, []).append((v[1], v[2]))
            if got != {e["id"] for e in sh}:
                raise MachineryError("trace validation of %s incomplete: %d of %d verdicts\n%s" %
                                     (p, len(got), len(sh), r.out[-3000:]))
            os.unlink(p)
        self.phases.append(("validate " + module, len(events), round(time.time() - t_val, 1), round(t_val - self.t0, 1)))
        byid = {e["id"]: e for e in events}
        for i, (clause, kf, detail) in verdicts.items():
            e = byid[i]
            self.evaluations += 1
            if clause == "ok":
                self.accepted += 1
            else:
                e = dict(e)
                e["_trace"] = {"module": module, "header": header or {}, "cfg": cfg_text}
                self.failure(clause, kf, e, detail)
        return verdicts

    def failure(self, clause, kf, case, detail=None):
        if kf and (self.pid, kf) in self.known:
            h = self.kf_hits.setdefault(kf, [0, None])
            h[0] += 1
            if os.environ.get("VERIF_KFDUMP") and h[0] <= 40:       # (debugging aid: keep the inputs that hit a recorded finding)
                with open(os.path.join(common.OUT, "kf_examples.jsonl"), "a") as f:
                    f.write(json.dumps({"kf": kf, "clause": clause, "case": case.get("case"), "detail": str(detail)[:400], "options": case.get("options")}, default=str) + "\n")
            if h[1] is None:
                h[1] = {"clause": clause, "case": _slim(case)}
        else:
            c = dict(case)
            if detail is not None:
                c["_detail"] = detail
            if kf:
                c["_kf_unlisted"] = kf
            self.violations.append((clause, c))

    # ------------------------------------------------------------------ bookkeeping
    def count_case(self, key, nontrivial=True):
        if nontrivial:
            self.distinct.add(hashlib.blake2b(repr(key).encode(), digest_size=8).digest())

    def sample(self, s, limit=6):
        if len(self.samples) < limit:
            self.samples.append(_slim(s))

    def pmap(self, fn, items, chunk=None, procs=None):
        items = list(items)
        if not items:
            return []
        procs = procs or common.NCPU
        if len(items) < 8 or procs == 1:
            return [fn(x) for x in items]
        with mp.get_context("fork").Pool(procs) as pool:
            return pool.map(fn, items, chunksize=chunk or max(1, len(items) // (procs * 4)))

    # ------------------------------------------------------------------ finish
    def finish(self):
        wall = time.time() - self.t0
        if os.environ.get("VERIF_TIMING"):
            for ph in self.phases:
                print("TIMING", ph)
            for r in self.mc_runs:
                print("TIMING mc", r.get("module"), r.get("config"), r.get("wall_s"))
        nviol = len(self.violations)
        cov = {"rule": self.rule, "samples": self.samples or ["(none recorded)"],
               "evaluations": self.evaluations, "distinct_nontrivial": len(self.distinct),
               "states": self.states, "transitions": self.transitions,
               "traces_validated_against_impl": self.accepted,
               "model_checking_runs": self.mc_runs,
               "checker_cmd": "; ".join(self.checker_cmds[:8]),
               "exhaustive": self.exhaustive,
               "known_findings_hit": {k: v[0] for k, v in self.kf_hits.items()},
               "action_coverage": {a: t for a, (d, t) in sorted(self.coverage_actions.items())}}
        cov.update(self.notes)
        if self.drift and "model_drift" not in cov:
            cov["model_drift"] = {m: {"cases": len(v), "samples": [w for _, w in v[:3]]} for m, v in self.drift.items()}
            for m, v in sorted(self.drift.items()):
                print("NOTE: %s: %d cases differ from what the library does today (not a verdict): %s" % (m, len(v), str(v[0][1])[:160]))
        ev = {"property_id": self.pid, "tier": self.tier, "seed": self.seed, "level": self.level,
              "coverage": cov, "assumptions": self.assumptions, "wall_s": round(wall, 2), "violations": nviol}
        os.makedirs(os.path.join(common.OUT, "evidence"), exist_ok=True)
        with open(os.path.join(common.OUT, "evidence", self.pid + ".json"), "w") as f:
            json.dump(ev, f, indent=1, default=str)
        for kf, (n, ex) in sorted(self.kf_hits.items()):
            print("KNOWN-FINDING: property=%s %s -- %s (%d cases this run)" % (self.pid, kf, self.known[(self.pid, kf)], n))
        rc = 0
        if nviol:
            os.makedirs(os.path.join(common.OUT, "replay"), exist_ok=True)
            seen = set()
            k = 0
            for clause, case in self.violations:
                if clause in seen and k >= 5:
                    continue
                seen.add(clause)
                k += 1
                if k > 8:
                    break
                path = os.path.join(common.OUT, "replay", "%s-%d.json" % (self.pid, k))
                with open(path, "w") as f:
                    json.dump({"property": self.pid, "clause": clause, "case": case}, f, indent=1, default=str)
                print("VIOLATION property=%s replay=%s clause=%s" % (self.pid, path, clause))
            rc = 1
        print("%s %s tier=%s seed=%d: evaluations=%d accepted=%d states=%d transitions=%d violations=%d known=%d wall=%.1fs" % (
            "FAIL" if rc else "PASS", self.pid, self.tier, self.seed, self.evaluations, self.accepted, self.states,
            self.transitions, nviol, sum(v[0] for v in self.kf_hits.values()), wall))
        common.rmtree(self.work)
        try:            # (the package the real plugin generated for the Wide schema, if this check built one)
            from . import genworld
            genworld.cleanup()
        except Exception:
            pass
        return rc


def _slim(x, limit=1500):
    s = json.dumps(x, default=str)
    if len(s) <= limit:
        return x
    return s[:limit] + "...(truncated)"


def replay(ctx, mod, path):
    """re-judge one recorded failing case: the property module may re-drive the real code from the case recipe
    (redrive(case) -> fresh event); the event is then validated by the same trace spec as in the original run"""
    rec = json.load(open(path))
    case = rec["case"]
    tr = case.get("_trace")
    if not tr:
        print("replay: %s holds a model-checking counterexample (clause %s); re-run ./check %s to re-check the model" % (path, rec["clause"], ctx.pid))
        print(str(case.get("counterexample", ""))[:3000])
        common.rmtree(ctx.work)
        return 1
    ev = {k: v for k, v in case.items() if not k.startswith("_")}
    redriven = False
    if hasattr(mod, "redrive"):
        fresh = mod.redrive(ev)
        if fresh is not None:
            ev, redriven = fresh, True
    ev.pop("id", None)
    ctx.validate(tr["module"], [ev], header=tr["header"], cfg_text=tr["cfg"])
    print("replay of %s: %s on the current tree -> %s" % (path, "re-driven" if redriven else "recorded event re-judged",
                                                          "VIOLATION " + ctx.violations[0][0] if ctx.violations else
                                                          ("KNOWN-FINDING" if ctx.kf_hits else "ok (no longer fails)")))
    if ctx.violations:
        print(json.dumps(_slim(ctx.violations[0][1].get("_detail"), 1200), default=str))
    rc = 1 if ctx.violations else 0
    common.rmtree(ctx.work)
    return rc


def main(argv=None):
    import argparse
    import importlib
    ap = argparse.ArgumentParser()
    ap.add_argument("pid")
    ap.add_argument("--tier", default=os.environ.get("VERIF_TIER", "quick"))
    ap.add_argument("--replay")
    a = ap.parse_args(argv)
    seed = int(os.environ.get("VERIF_SEED", "0") or 0)
    os.environ.setdefault("PYTHONHASHSEED", "0")
    sys.path.insert(0, os.path.join(common.REPO, "src"))
    pid = a.pid.upper()
    try:
        mod = importlib.import_module("harness.props.%s" % pid.lower())
    except ModuleNotFoundError as ex:
        print("MACHINERY-ERROR: no check for %s (%s)" % (pid, ex))
        return 2
    ctx = Ctx(pid, mod.LEVEL, a.tier if a.tier in ("quick", "thorough") else "quick", seed, a.replay)
    try:
        if a.replay and not getattr(mod, "HANDLES_REPLAY", False):
            return replay(ctx, mod, a.replay)
        mod.run(ctx)
        return ctx.finish()
    except MachineryError as ex:
        print("MACHINERY-ERROR: %s" % ex)
        common.rmtree(ctx.work)
        return 2
    except Exception:
        print("MACHINERY-ERROR: unexpected exception in the harness")
        traceback.print_exc()
        common.rmtree(ctx.work)
        return 2
