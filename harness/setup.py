"""setup_cmd: nothing to build (TLC and /venv are pre-installed); verifies the toolchain and parses every spec module."""
import glob, os, subprocess, sys
from . import common
def main():
    os.makedirs(common.WORKROOT, exist_ok=True)
    bad = 0
    for f in sorted(glob.glob(os.path.join(common.SPEC, "*.tla"))):
        p = subprocess.run(["java", "-cp", common.TLA_CP, "tla2sany.SANY", os.path.basename(f)], cwd=common.SPEC, stdout=subprocess.PIPE, stderr=subprocess.STDOUT, text=True)
        if p.returncode != 0 or "Semantic errors" in p.stdout or "Parse Error" in p.stdout or "Fatal errors" in p.stdout:
            print("SANY failed on", f); print(p.stdout[-1500:]); bad += 1
    subprocess.run([common.PY, "-c", "import sys; sys.path.insert(0,'/repo/src'); import betterproto, google.protobuf, grpclib; print('imports ok')"], check=True)
    print("setup ok" if not bad else "setup: %d spec modules do not parse" % bad)
    return 1 if bad else 0
if __name__ == "__main__":
    sys.exit(main())
