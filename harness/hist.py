"""Histories of public operations on real Message objects (C06, C07, C14): generates an abstract
op sequence, applies it to the real object, and records the public observation vector after
every call.  TLC (Trace_Msg over AbsMessage.tla) judges the log."""
import copy
import io
import pickle

import betterproto

from . import absval as av
from . import dyn, gen

OBSERVERS = ["get", "getin", "bytes", "len", "bool", "repr", "todict", "tojson", "topydict", "eqself", "observe"]


def members(schema, ty):
    return [f for f in schema["types"][ty] if f["card"] == "oneof"]


def observe(schema, m, ty, R=None, C=None, dictback=False):
    o = {"val": gen.fresh(schema, ty), "wire": [], "raises": {"_": False}, "dictkeys": [], "err": "", "refval": None, "len": -1, "dump": [], "delim": [], "reread": [], "reread_res": "skipped", "isset": {"_": False}, "dictback": [], "dictback_res": "skipped"}
    try:
        o["val"] = dyn.obs_bp(schema, m, ty)
        o["len"] = len(m)                   # (before bytes(): a size computed / cached earlier must still be right)
        o["wire"] = list(bytes(m))
        o["rteq"] = bool(type(m)().parse(bytes(o["wire"])) == m)
        s = io.BytesIO()
        m.dump(s)
        o["dump"] = list(s.getvalue())
        s = io.BytesIO()
        m.dump(s, betterproto.SIZE_DELIMITED)
        o["delim"] = list(s.getvalue())
        if C is not None and dictback:  # C04 along the history: the dict / JSON text written now is read back as the current value
            try:
                o["dictback"] = [dyn.obs_bp(schema, C[ty]().from_dict(m.to_dict()), ty), dyn.obs_bp(schema, C[ty].from_dict(m.to_dict(casing=betterproto.Casing.SNAKE)), ty),
                                 dyn.obs_bp(schema, C[ty]().from_json(m.to_json()), ty)]
                o["dictback_res"] = "ok"
            except Exception as ex:
                o["dictback_res"] = "raises_" + type(ex).__name__
        if C is not None and not dictback:            # C10 along the history: the frame written now, twice, is read back by two loads that consume exactly the stream
            rs = io.BytesIO(bytes(o["delim"]) * 2)
            try:
                r1 = C[ty]().load(rs, betterproto.SIZE_DELIMITED)
                r2 = C[ty]().load(rs, betterproto.SIZE_DELIMITED)
                o["reread"] = [dyn.obs_bp(schema, r1, ty), dyn.obs_bp(schema, r2, ty)]
                o["reread_res"] = "ok" if rs.tell() == 2 * len(o["delim"]) else "stopped_at_%d_of_%d" % (rs.tell(), 2 * len(o["delim"]))
            except Exception as ex:
                o["reread_res"] = "raises_" + type(ex).__name__
        if R is not None:            # what the reference implementation reports (HasField / WhichOneof / values) for the same bytes
            r = R[ty]()
            r.ParseFromString(bytes(o["wire"]))
            o["refval"] = dyn.obs_ref(schema, r, ty)
        for f in members(schema, ty):
            try:
                getattr(m, f["name"])
                o["raises"][f["name"]] = False
            except AttributeError:
                o["raises"][f["name"]] = True
        o["dictkeys"] = [k for k in m.to_dict(casing=betterproto.Casing.SNAKE).keys()]
        # Message.is_set of the proto3-optional fields (read last: after every other observer has run)
        o["isset"] = {f["name"]: bool(m.is_set(dyn.py(f))) for f in schema["types"][ty] if f["card"] == "optional"}
        o["isset"]["_"] = False
    except Exception as ex:
        o["err"] = type(ex).__name__ + ":" + str(ex)[:70]
    if o["refval"] is None:
        o["refval"] = o["val"]
    return o


def with_fresh(v, fresh=False):
    """message values carry the 'fresh' marker (a newly constructed, empty, never-assigned message object)"""
    if isinstance(v, dict) and v.get("k") == "msg":
        v = dict(v)
        v["fresh"] = fresh
    return v


def conc_value(schema, C, f, v):
    if v["k"] == "unset":
        return None
    if v["k"] == "msg" and v.get("fresh"):
        return C[f["msg"]]()
    return dyn.conc_bp_field(schema, C, f, v)


def rand_value(schema, f, rnd, allow_unset=True):
    k, card = f["kind"], f["card"]
    if card in ("repeated", "map"):
        return rnd.choice(gen.field_domain(schema, f))
    dom = gen.single_domain(schema, f, k)
    v = rnd.choice(dom)
    if k == "message" and rnd.random() < .25:
        return {"k": "msg", "m": gen.fresh(schema, f["msg"]), "fresh": True}
    if allow_unset and (card == "optional" or k == "wrap") and rnd.random() < .15:
        return {"k": "unset"}
    # default value of the kind with decent probability (selecting a oneof member with its default, optional set to default ...)
    if rnd.random() < .3 and k not in ("message", "timestamp", "duration", "wrap"):
        return gen.scalar_domain(k)[0] if k not in gen.RANGE else av.aint(0)
    return with_fresh(v)


BAD_TAILS = [[0x08, 0x80], [0x0F], [0xFA, 0x01, 0x05, 0x61, 0x62], [0x0D, 0x01], [0x0A, 0xFF, 0xFF, 0xFF, 0xFF, 0xFF, 0xFF, 0xFF, 0xFF, 0xFF, 0xFF, 0x01]]
# (members that from_dict converts - and therefore rejects when they cannot be converted; 32-bit numbers are stored as given)
BAD_JSON = {"enum": "NO_SUCH_MEMBER", "int64": "12x", "sint64": "12x", "uint64": "12x", "fixed64": "12x", "sfixed64": "12x", "timestamp": "yesterday", "duration": "soon"}


def gen_history(schema, ty, rnd, n, emphasis=None):
    """abstract op list; emphasis in {None, 'oneof', 'observers', 'presence', ...}.  Some histories additionally contain an
    operation that is *rejected* (malformed bytes, an invalid document) on the live object; the history goes on afterwards."""
    import json
    import random
    import zlib
    ops = _gen_history(schema, ty, rnd, n, emphasis)
    r2 = random.Random(zlib.crc32(json.dumps([ty, ops], sort_keys=True).encode()))      # (independent of rnd: the histories themselves stay as they were)
    # occurrences of known field numbers with a wire type the field cannot have (schema drift, a reused number): kept as unknown
    # fields, and - like any unknown field - without effect on what the message holds, oneof selections included
    for op in ops:
        if op["op"] == "parse" and r2.random() < .25 and ty != "Nil":
            op["again"] = gen.rmsg(schema, ty, r2, density=r2.choice([0.1, 0.3]))
        if op["op"] == "parse" and op.get("unk") and r2.random() < .4:
            op["unk"] = list(op["unk"]) + [5 + r2.randrange(4)]
        if op["op"] == "parse" and r2.random() < .3 and ty != "Nil":
            op["mis"] = []
            for f in r2.sample(schema["types"][ty], min(len(schema["types"][ty]), r2.randint(1, 2))):
                fits = {_native_wt(f["kind"])} if f["card"] != "map" else {2}
                if f["card"] == "repeated":
                    fits.add(2)
                op["mis"].append([f["num"], r2.choice(sorted({0, 1, 2, 5} - fits))])
    # reads of a container inside a sub-message (unset or not): m.<f>.<list or map field>
    if r2.random() < .3 and ty != "Nil":
        at = r2.randint(1, len(ops))
        ops.insert(at, {"op": "eqwith", "src": gen.rmsg(schema, ty, r2, density=r2.choice([0.0, 0.1, 0.3]))})
        ops.insert(at + 1, {"op": r2.choice(["copy", "deepcopy", "observe"])})
    if any(f["card"] == "map" for f in schema["types"][ty]) and r2.random() < .3:
        ops.insert(r2.randint(1, len(ops)), {"op": "eqother"})
    boxes = [(f, g) for f in schema["types"][ty] if f["kind"] == "message" and f["card"] in ("implicit", "optional", "oneof")
             for g in schema["types"][f["msg"]] if g["card"] in ("repeated", "map")]
    if boxes and r2.random() < .5:
        for _ in range(r2.randint(1, 2)):
            f, g = r2.choice(boxes)
            ops.insert(r2.randint(1, len(ops)), {"op": "getin", "f": f["name"], "x": g["name"]})
    if boxes and r2.random() < .5:
        # ... and in-place fills of such a container: m.<f>.<x>.append(v) / m.<f>.<x>[k] = v
        for _ in range(r2.randint(1, 3)):
            f, g = r2.choice(boxes)
            if g["kind"] == "message" or g.get("vkind") == "message":
                continue
            if g["card"] == "repeated":
                fill = {"op": "appendin", "f": f["name"], "x": g["name"], "v": r2.choice(gen.single_domain(schema, g, g["kind"]))}
            else:
                fill = {"op": "mapsetin", "f": f["name"], "x": g["name"], "key": r2.choice(gen.scalar_domain(g["kkind"])[:6]), "v": r2.choice(gen.single_domain(schema, g, g["vkind"]))}
            ops.insert(r2.randint(1, len(ops)), fill)
    if r2.random() < .2:
        # a blind history: the object is looked at only after the last call
        for op in ops[:-1]:
            op["blind"] = True
        ops.append({"op": "observe"})
        return ops
    if r2.random() < .3 and ty != "Nil":
        at = r2.randint(1, len(ops))
        if r2.random() < .6:
            # valid fields first (they may select another oneof member, extend lists ...), then a tail no decoder can accept
            bad = {"op": "parse_bad", "src": gen.rmsg(schema, ty, r2, density=r2.choice([0.1, 0.3, 0.6])), "tail": r2.choice(BAD_TAILS)}
        else:
            kw = []
            mem = members(schema, ty)
            cand = [f for f in schema["types"][ty] if f["card"] in ("implicit", "optional") and f["kind"] in BAD_JSON]
            if not cand:
                return ops
            badf = r2.choice(cand)
            for f in r2.sample(schema["types"][ty], min(len(schema["types"][ty]), r2.randint(1, 4))):
                if f is badf or (f["card"] == "oneof" and any(x[0] in {g["name"] for g in mem if g["group"] == f["group"]} for x in kw)):
                    continue
                v = rand_value(schema, f, r2, allow_unset=False)
                if v.get("k") == "msg" and v.get("fresh"):
                    continue
                kw.append([f["name"], v])
            bad = {"op": "fromdict_bad", "kw": kw, "badkey": dyn.py(badf).rstrip("_"), "badval": BAD_JSON[badf["kind"]]}
        nested = [f for f in schema["types"][ty] if f["kind"] == "message" and f["card"] in ("implicit", "optional", "oneof")]
        if nested and r2.random() < .4:
            # a Python-dict document whose nested part cannot be read (a number where a nested document belongs)
            bad = {"op": "frompydict_bad", "doc": {dyn.py(r2.choice(nested)): 5}}
        ops.insert(at, bad)
        ops.insert(at + 1, {"op": r2.choice(["observe", "bytes", "eqself", "todict", "copy", "deepcopy", "pickle"])})
    return ops


def _gen_history(schema, ty, rnd, n, emphasis=None):
    fields = schema["types"][ty]
    mem = members(schema, ty)
    msgf = [f for f in fields if f["kind"] == "message" and f["card"] in ("implicit", "optional", "oneof") and schema["types"][f["msg"]]]
    ops = []
    kw = []
    # a constructor may be given several members of one group: the dataclass __init__ assigns in declaration order, so the
    # member declared last is the one set last (kw is kept in declaration order)
    several = rnd.random() < (.35 if emphasis == "oneof" else .1)
    for f in fields:
        if rnd.random() < (.25 if emphasis != "presence" else .4) or (several and f["card"] == "oneof" and rnd.random() < .5):
            if f["card"] == "oneof" and not several and any(x[0] in {g["name"] for g in mem if g["group"] == f["group"]} for x in kw):
                continue
            kw.append([f["name"], rand_value(schema, f, rnd, allow_unset=False)])
    ops.append({"op": "new", "kw": kw})
    if emphasis == "inplace" and rnd.random() < .6:
        ops[0] = {"op": "new", "kw": []}          # a fresh message that is only ever filled in place
    reps = [f for f in fields if f["card"] == "repeated"]
    maps = [f for f in fields if f["card"] == "map"]
    for _ in range(n):
        c = rnd.random()
        w_set = .35 if emphasis != "observers" else .15
        if emphasis == "inplace" and c < .45 and (reps or maps or msgf):
            # in-place mutation of a container / sub-message obtained by reading the attribute (never passes through __setattr__ of m)
            pick = rnd.choice(["append"] * bool(reps) + ["mapset"] * bool(maps) + ["setin"] * bool(msgf))
            if pick == "append":
                f = rnd.choice(reps)
                v = rnd.choice(gen.single_domain(schema, f, f["kind"]))
                ops.append({"op": "append", "f": f["name"], "v": with_fresh(v)})
            elif pick == "mapset":
                f = rnd.choice(maps)
                vd = gen.single_domain(schema, f, f["vkind"]) if f["vkind"] != "message" else gen.inner_domain()
                ops.append({"op": "mapset", "f": f["name"], "key": rnd.choice(gen.scalar_domain(f["kkind"])[:6]), "v": with_fresh(rnd.choice(vd))})
            else:
                f = rnd.choice(msgf)
                g = rnd.choice(schema["types"][f["msg"]])
                if g["card"] == "implicit" and g["kind"] not in ("message", "map", "wrap", "timestamp", "duration"):
                    ops.append({"op": "setin", "f": f["name"], "x": g["name"], "v": rnd.choice(gen.scalar_domain(g["kind"]))})
        elif emphasis == "inplace" and c < .6:
            ops.append({"op": rnd.choice(["len", "bytes", "observe"])})
        elif emphasis == "fromdict" and c < .45:
            # documents read into an object that already holds values: given fields replace (a repeated field is not extended)
            kw = []
            for f in rnd.sample(fields, min(len(fields), rnd.randint(1, 4))):
                if f["card"] == "oneof" and any(x[0] in {g["name"] for g in mem if g["group"] == f["group"]} for x in kw):
                    continue
                v = rand_value(schema, f, rnd, allow_unset=False)
                if v.get("k") == "msg" and v.get("fresh"):
                    continue
                kw.append([f["name"], v])
            ops.append({"op": "fromdict_inst", "kw": kw, "nulls": rnd.random() < .3})
        elif emphasis == "unknown" and c < .45:
            # several parses into one object: what an earlier parse kept as unknown must survive the later ones
            ops.append({"op": "parse", "src": gen.rmsg(schema, ty, rnd, density=rnd.choice([0.0, 0.1, 0.3])),
                        "unk": [rnd.randrange(5) for _ in range(rnd.choice([0, 1, 1, 2, 3]))]})
        elif c < w_set:
            f = rnd.choice(mem) if (mem and (emphasis == "oneof" or rnd.random() < .4)) else rnd.choice(fields)
            ops.append({"op": "set", "f": f["name"], "v": rand_value(schema, f, rnd)})
        elif c < w_set + (.14 if emphasis == "presence" else .08) and msgf:
            f = rnd.choice(msgf)
            g = rnd.choice(schema["types"][f["msg"]])
            if g["card"] == "implicit" and g["kind"] not in ("message", "map", "wrap", "timestamp", "duration"):
                if rnd.random() < (.5 if emphasis == "presence" else .3):
                    # m.<f>.<x> = m.<f>.<x>: the value read (possibly the lazily created default, the very same object) is assigned back
                    ops.append({"op": "selfin", "f": f["name"], "x": g["name"]})
                else:
                    ops.append({"op": "setin", "f": f["name"], "x": g["name"], "v": rnd.choice(gen.scalar_domain(g["kind"]))})
        elif c < w_set + .2:
            ops.append({"op": "parse", "src": gen.rmsg(schema, ty, rnd, density=rnd.choice([0.1, 0.3])),
                        "unk": [rnd.randrange(5) for _ in range(rnd.choice([0, 0, 1, 2] if emphasis != "unknown" else [1, 1, 2, 3]))]
                        if emphasis in ("observers", "presence", "unknown") else []})
        elif c < w_set + .25:
            kw = []
            for f in rnd.sample(fields, min(len(fields), rnd.randint(0, 3))):
                if f["card"] == "oneof" and any(x[0] in {g["name"] for g in mem if g["group"] == f["group"]} for x in kw):
                    continue
                v = rand_value(schema, f, rnd, allow_unset=False)
                if v.get("k") == "msg" and v.get("fresh"):
                    continue
                kw.append([f["name"], v])
            # (nulls: every field absent from the document is spelled out as null - null means absent, it selects no oneof member)
            ops.append({"op": rnd.choice(["fromdict_cls", "fromdict_inst"]), "kw": kw, "nulls": rnd.random() < .4})
        elif c < w_set + .35:
            ops.append({"op": rnd.choice(["copy", "deepcopy", "pickle"])})
        elif c < w_set + .40:
            ops.append({"op": "indep"})
        else:
            o = rnd.choice(OBSERVERS)
            if o == "get":
                ops.append({"op": "get", "f": rnd.choice(fields)["name"]})
            elif o == "getin":
                if msgf:
                    f = rnd.choice(msgf)
                    # (any field of the sub-message: reading a lazily created inner list / map / message is a read too)
                    inner = [g for g in schema["types"][f["msg"]] if g["card"] != "oneof"]
                    ops.append({"op": "getin", "f": f["name"], "x": rnd.choice(inner)["name"] if inner else schema["types"][f["msg"]][0]["name"]})
            else:
                ops.append({"op": o})
    return ops


def mutate_everything(schema, C, ty, m):
    """change as much as possible of a (deep) copy; the original must not notice"""
    for f in schema["types"][ty]:
        try:
            v = getattr(m, f["name"])
        except AttributeError:
            continue
        try:
            if isinstance(v, list):
                v.append(v[0] if v else (C[f["msg"]]() if f["kind"] == "message" else gen_scalar_py(f["kind"])))
                if v and isinstance(v[0], betterproto.Message):
                    _poke(schema, v[0], f["msg"])
            elif isinstance(v, dict):
                for k in list(v):
                    if isinstance(v[k], betterproto.Message):
                        _poke(schema, v[k], f["msg"])
                v.clear()
            elif isinstance(v, betterproto.Message):
                _poke(schema, v, f["msg"])
        except Exception:
            pass
    for f in schema["types"][ty]:
        if f["card"] == "implicit" and f["kind"] in gen.RANGE and f["kind"] != "enum":
            setattr(m, f["name"], 41)
            break


def reassign_toplevel(schema, C, ty, c):
    """top-level attribute assignments on a *shallow* copy (rebinding only, no in-place mutation of shared values):
    select another member in every oneof group, rebind scalars -- the original must not notice either"""
    groups = {}
    for f in members(schema, ty):
        groups.setdefault(f["group"], []).append(f)
    for g, ms in groups.items():
        cur, _ = betterproto.which_one_of(c, g)
        for f in ms:
            if f["name"] != cur and f["kind"] not in ("message", "timestamp", "duration", "wrap"):
                setattr(c, f["name"], gen_scalar_py(f["kind"]) if f["kind"] != "enum" else 1)
                break
    for f in schema["types"][ty]:
        if f["card"] in ("implicit", "optional") and f["kind"] in gen.RANGE and f["kind"] != "enum":
            setattr(c, f["name"], 43)


def gen_scalar_py(kind):
    return {"bool": True, "float": 1.5, "double": 1.5, "string": "zz", "bytes": b"zz"}.get(kind, 7)


def _poke(schema, sub, ty):
    for g in schema["types"][ty]:
        if g["card"] == "implicit" and g["kind"] in gen.RANGE and g["kind"] != "enum":
            setattr(sub, g["name"], 77)
            return
        if g["card"] == "implicit" and g["kind"] == "string":
            setattr(sub, g["name"], "poked")
            return


def with_nulls(schema, ty, d):
    d = dict(d)
    for f in schema["types"][ty]:
        key = dyn.py(f).rstrip("_")
        if key not in d and dyn.py(f) not in d:
            d[key] = None
    return d


def kw_to_dict(schema, C, ty, kw):
    """the dict a JSON producer would hand to from_dict for these keyword values (snake_case keys): built with
    betterproto's own to_dict of a message constructed from kw -- only used to *drive* from_dict; what from_dict
    makes of it is judged against kw by the spec"""
    m = C[ty](**{n: conc_value(schema, C, next(f for f in schema["types"][ty] if f["name"] == n), v) for n, v in kw})
    return m.to_dict(casing=betterproto.Casing.SNAKE)


def run_history(schema, C, ty, ops, R=None, reread=False, dictback=False):
    log = []
    m = None
    byname = {f["name"]: f for f in schema["types"][ty]}
    for op in ops:
        e = {"op": op["op"], "f": op.get("f", ""), "x": op.get("x", ""), "g": op.get("g", ""), "v": op.get("v", {"k": "unset"}), "key": op.get("key", {"k": "unset"}), "kw": op.get("kw", []), "b": [],
             "res": "ok", "eq": True, "samebytes": True}
        try:
            k = op["op"]
            if k == "new":
                m = C[ty](**{n: conc_value(schema, C, byname[n], v) for n, v in op["kw"]})
            elif k == "set":
                setattr(m, op["f"], conc_value(schema, C, byname[op["f"]], op["v"]))
            elif k == "setin":
                g = next(x for x in schema["types"][byname[op["f"]]["msg"]] if x["name"] == op["x"])
                setattr(getattr(m, op["f"]), op["x"], dyn.conc_bp_single(schema, C, g, g["kind"], op["v"]))
            elif k == "append":
                f = byname[op["f"]]
                getattr(m, op["f"]).append(C[f["msg"]]() if op["v"].get("fresh") else dyn.conc_bp_single(schema, C, f, f["kind"], op["v"]))
            elif k == "mapset":
                f = byname[op["f"]]
                kf = dict(f, kind=f["kkind"])
                vf = dict(f, kind=f["vkind"])
                getattr(m, op["f"])[dyn.conc_bp_single(schema, C, kf, f["kkind"], op["key"])] = \
                    C[f["msg"]]() if op["v"].get("fresh") else dyn.conc_bp_single(schema, C, vf, f["vkind"], op["v"])
            elif k == "appendin":
                g = next(x for x in schema["types"][byname[op["f"]]["msg"]] if x["name"] == op["x"])
                getattr(getattr(m, op["f"]), op["x"]).append(dyn.conc_bp_single(schema, C, g, g["kind"], op["v"]))
            elif k == "mapsetin":
                g = next(x for x in schema["types"][byname[op["f"]]["msg"]] if x["name"] == op["x"])
                getattr(getattr(m, op["f"]), op["x"])[dyn.conc_bp_single(schema, C, dict(g, kind=g["kkind"]), g["kkind"], op["key"])] = \
                    dyn.conc_bp_single(schema, C, dict(g, kind=g["vkind"]), g["vkind"], op["v"])
            elif k == "fillpath":       # m.<f>.<g>.<x>.append(v): nothing on the way is assigned to
                f = byname[op["f"]]
                g = next(y for y in schema["types"][f["msg"]] if y["name"] == op["g"])
                x = next(y for y in schema["types"][g["msg"]] if y["name"] == op["x"])
                e["g"] = op["g"]
                getattr(getattr(getattr(m, op["f"]), op["g"]), op["x"]).append(C[x["msg"]]() if op["v"].get("fresh") else dyn.conc_bp_single(schema, C, x, x["kind"], op["v"]))
            elif k == "eqwith":         # compared with an unrelated message of the same class (the answer is not judged; both stay as they are)
                other = dyn.conc_bp(schema, C, ty, op["src"])
                before = bytes(other)
                m == other
                other == m
                e["samebytes"] = bytes(other) == before
            elif k == "selfin":
                sub = getattr(m, op["f"])
                setattr(sub, op["x"], getattr(sub, op["x"]))
            elif k == "get":
                getattr(m, op["f"])
            elif k == "getin":
                getattr(getattr(m, op["f"]), op["x"])
            elif k == "parse":
                from .props.c02 import UNKNOWN, UNKNOWN_MORE
                b = bytes(dyn.conc_bp(schema, C, ty, op["src"]))
                if op.get("again") is not None:      # one payload in which the fields of src occur, then those of another message, then src's again
                    b = b + bytes(dyn.conc_bp(schema, C, ty, op["again"])) + b
                b = b + b"".join(_occurrence(n, wt) for n, wt in op.get("mis", [])) + b"".join((UNKNOWN + UNKNOWN_MORE)[i] for i in op.get("unk", []))
                e["b"] = list(b)
                m.parse(b)
            elif k == "parse_bad":
                b = bytes(dyn.conc_bp(schema, C, ty, op["src"])) + bytes(op["tail"])
                e["b"] = list(b)
                try:
                    m.parse(b)
                    return log               # (whether malformed input is rejected is C17's subject)
                except Exception as ex:          # the caller handles the rejection and keeps using the object
                    e["res"] = "rejected:" + type(ex).__name__
            elif k == "fromdict_bad":
                d = kw_to_dict(schema, C, ty, op["kw"])
                d[op["badkey"]] = op["badval"]         # (last member of the document)
                e["kw"] = []
                try:
                    m.from_dict(d)
                    return log               # (taken as it is: not a rejection, and what such an object is worth is nobody's claim)
                except Exception as ex:
                    e["res"] = "rejected:" + type(ex).__name__
            elif k == "frompydict_bad":
                try:
                    m.from_pydict(op["doc"])
                    return log
                except Exception as ex:
                    e["res"] = "rejected:" + type(ex).__name__
            elif k == "fromdict_cls":
                d = kw_to_dict(schema, C, ty, op["kw"])
                e["kw"] = [x for x in op["kw"] if _in_dict(d, x[0])]
                m = C[ty].from_dict(with_nulls(schema, ty, d) if op.get("nulls") else d)
            elif k == "fromdict_inst":
                d = kw_to_dict(schema, C, ty, op["kw"])
                e["kw"] = [x for x in op["kw"] if _in_dict(d, x[0])]
                m.from_dict(with_nulls(schema, ty, d) if op.get("nulls") else d)
            elif k == "bytes":
                bytes(m)
            elif k == "len":
                len(m)
            elif k == "bool":
                bool(m)
            elif k == "repr":
                repr(m)
            elif k == "todict":
                if len(log) % 2 or _reaches_cycle(schema, ty):      # (include_default_values never returns on a recursive type)
                    m.to_dict()
                else:        # (renders every field, unset sub-messages and their containers included)
                    m.to_dict(include_default_values=True)
                    m.to_pydict(include_default_values=True)
            elif k == "tojson":
                m.to_json()
            elif k == "topydict":
                m.to_pydict()
            elif k == "eqself":
                e["eq"] = bool(m == m)
            elif k == "eqother":
                # compared with another message whose maps are defaultdicts (the natural container for counters) holding as many
                # entries under one other key: the answer is False - and neither operand may have changed
                import collections
                other = copy.deepcopy(m)
                differs = False
                for f in schema["types"][ty]:
                    if f["card"] != "map":
                        continue
                    cur = getattr(other, f["name"])
                    dd = collections.defaultdict(int if f["vkind"] in gen.RANGE else C[f["msg"]] if f["vkind"] == "message" else str if f["vkind"] == "string" else bytes if f["vkind"] == "bytes" else float if f["vkind"] in ("float", "double") else bool if f["vkind"] == "bool" else int, cur)
                    for key in list(dd):
                        nk = key + "_" if isinstance(key, str) else (key - 1 if key > 0 else key + 1) if isinstance(key, int) and not isinstance(key, bool) else None    # (stays within the key type's range)
                        if nk is not None and nk not in dd:
                            dd[nk] = dd.pop(key)
                            differs = True
                            break
                    setattr(other, f["name"], dd)
                before = bytes(other)
                r1, r2_ = bool(m == other), bool(other == m)
                e["eq"] = (r1 == r2_) and (r1 != differs)
                e["samebytes"] = bytes(other) == before
            elif k == "observe":
                pass
            elif k in ("copy", "deepcopy", "pickle"):
                c = copy.copy(m) if k == "copy" else copy.deepcopy(m) if k == "deepcopy" else pickle.loads(pickle.dumps(m))
                e["eq"] = bool(c == m)
                e["samebytes"] = bytes(c) == bytes(m)
                m = c                      # the history continues on the copy
            elif k == "indep":
                e["op"] = "mutcopy"
                from .props.c02 import UNKNOWN
                for c in (copy.deepcopy(m), pickle.loads(pickle.dumps(m))):
                    mutate_everything(schema, C, ty, c)
                for c in (copy.deepcopy(m), pickle.loads(pickle.dumps(m))):
                    # more wire data (unknown fields, and whatever field number 1 is) received by the copy only
                    try:
                        c.parse(UNKNOWN[0] + UNKNOWN[2] + b"\x08\x05")
                    except Exception:
                        pass
                    mutate_everything(schema, C, ty, c)
                reassign_toplevel(schema, C, ty, copy.copy(m))
            else:
                raise AssertionError(k)
        except AttributeError:
            e["res"] = "AttributeError"
        except Exception as ex:
            e["res"] = type(ex).__name__ + ":" + str(ex)[:60]
        e["obs"] = {"blind": True} if op.get("blind") else observe(schema, m, ty, R, C if (reread or dictback) else None, dictback)
        log.append(e)
        if e["res"] not in ("ok", "AttributeError") and not e["res"].startswith("rejected:"):
            break
    return log


_CYC = {}


def _reaches_cycle(schema, ty):
    if ty not in _CYC:
        def walk(t, path):
            for f in schema["types"][t]:
                if f.get("msg") and f["card"] in ("implicit", "optional", "oneof"):
                    if f["msg"] in path or walk(f["msg"], path + [f["msg"]]):
                        return True
            return False
        _CYC[ty] = walk(ty, [ty])
    return _CYC[ty]


def _native_wt(kind):
    if kind in ("fixed64", "sfixed64", "double"):
        return 1
    if kind in ("fixed32", "sfixed32", "float"):
        return 5
    if kind in ("string", "bytes", "message", "timestamp", "duration", "wrap", "map"):
        return 2
    return 0


def _varint(n):
    out = bytearray()
    while True:
        out.append((n & 0x7F) | (0x80 if n > 0x7F else 0))
        n >>= 7
        if not n:
            return bytes(out)


def _occurrence(num, wt):
    return _varint(num << 3 | wt) + {0: b"\x05", 1: b"\x01\x02\x03\x04\x05\x06\x07\x08", 2: b"\x02\x08\x01", 5: b"\x01\x02\x03\x04"}[wt]


def directed(schema, types):
    """a few histories every driver runs on its types: an object that was never assigned to at the top level, whose plain
    sub-message gets a field set to its ZERO value (present, equal to its default, parent untouched); the same after a blind
    start; a deep in-place fill"""
    out = []
    for ty in types:
        if ty == "TOneP":
            continue
        for f in schema["types"][ty]:
            if f["kind"] != "message" or f["card"] != "implicit":
                continue
            for g in schema["types"][f["msg"]]:
                if g["card"] == "implicit" and g["kind"] not in ("message", "map", "wrap", "timestamp", "duration"):
                    zero = gen.default_of(schema, g)
                    out.append((ty, [{"op": "new", "kw": []}, {"op": "setin", "f": f["name"], "x": g["name"], "v": zero}, {"op": "len"}, {"op": "observe"}, {"op": "deepcopy"}]))
                    out.append((ty, [{"op": "new", "kw": [], "blind": True}, {"op": "setin", "f": f["name"], "x": g["name"], "v": zero, "blind": True}, {"op": "observe"}]))
                    break
            for g in schema["types"][f["msg"]]:
                if g["kind"] == "message" and g["card"] == "implicit":
                    for x in schema["types"][g["msg"]]:
                        if x["card"] == "repeated" and x["kind"] == "message":
                            elem = {"k": "msg", "m": gen.fresh(schema, x["msg"]), "fresh": True}
                            out.append((ty, [{"op": "new", "kw": []}, {"op": "fillpath", "f": f["name"], "g": g["name"], "x": x["name"], "v": elem}, {"op": "observe"}, {"op": "bytes"}, {"op": "copy"}]))
                            out.append((ty, [{"op": "new", "kw": [], "blind": True}, {"op": "fillpath", "f": f["name"], "g": g["name"], "x": x["name"], "v": elem, "blind": True}, {"op": "observe"}]))
                            break
                    break
    return out


def _in_dict(d, name):
    return name in d or name.rstrip("_") in d


def history_event(args):
    from . import msgev
    ty, ops, withref = args[:3]
    reread = len(args) > 3 and args[3] is True
    dictback = len(args) > 3 and args[3] == "dictback"
    world = args[4] if len(args) > 4 else "dyn"
    w = msgev.world()
    C = msgev.classes_for({"world": world})
    return {"ty": ty, "log": run_history(w["schema"], C, ty, ops, msgev.ref_classes() if withref else None, reread, dictback), "case": {"ty": ty, "ops": ops, "world": world}}


def run_histories(ctx, types, count, length, emphasis, withref=False, extra=(), judge_len=False, judge_dict=False):
    from . import msgev
    w = msgev.world()
    rnd = ctx.rnd
    cases = []
    have_gen = bool(msgev.gen_world())
    for _ in range(count):
        ty = rnd.choice(types)
        # (every fourth history runs on the classes the real plugin generates for the schema)
        world_ = "gen" if (len(cases) % 4 == 3 and ty != "TOneP" and have_gen) else "dyn"
        cases.append((ty, gen_history(w["schema"], ty, rnd, rnd.randint(2, length), emphasis), withref, "dictback" if judge_dict else bool(judge_len), world_))
    cases += [(ty, ops, withref, "dictback" if judge_dict else bool(judge_len), "dyn") for ty, ops in extra]
    cases += [(ty, ops, withref, "dictback" if judge_dict else bool(judge_len), "dyn") for ty, ops in directed(w["schema"], sorted(set(types)))]
    msgev.gen_world()
    events = ctx.pmap(history_event, cases)
    for c in cases:
        ctx.count_case((c[0], repr(c[1])), len(c[1]) > 1)
    ctx.sample({"type": cases[0][0], "ops": cases[0][1][:6]})
    ctx.validate("Trace_Msg", events, header={"schema": w["schema"], "judge_len": bool(judge_len), "judge_dict": bool(judge_dict)}, shard=300, weight=lambda e: len(e["log"]))
    ctx.notes.setdefault("history_steps", 0)
    ctx.notes["history_steps"] += sum(len(e["log"]) for e in events)
    return events
