"""Grammar-based generator of proto3 programs (C03, C13, C18, C11): packages in any relative position, nested
messages and enums (negative / aliased numbers), all 15 scalar kinds, maps over every legal key kind, oneofs,
proto3 optional, repeated, recursive and mutually recursive messages, well-known types, keyword-like field names,
cross-package references, services with every streaming cardinality.  Output: {relative path: .proto text}.
The printer is trusted only as far as protoc accepts its output: the schema the spec sees is the one protoc reports."""

SCALARS = ["int32", "int64", "uint32", "uint64", "sint32", "sint64", "bool", "fixed32", "sfixed32", "float", "fixed64", "sfixed64", "double",
           "string", "bytes"]
MAPKEYS = ["int32", "int64", "uint32", "uint64", "sint32", "sint64", "fixed32", "sfixed32", "fixed64", "sfixed64", "bool", "string"]
WKT = ["google.protobuf.BoolValue", "google.protobuf.BytesValue", "google.protobuf.DoubleValue", "google.protobuf.FloatValue",
       "google.protobuf.Int32Value", "google.protobuf.Int64Value", "google.protobuf.StringValue", "google.protobuf.UInt32Value",
       "google.protobuf.UInt64Value", "google.protobuf.Timestamp", "google.protobuf.Duration", "google.protobuf.Empty"]
WKT_IMPORT = {"Timestamp": "google/protobuf/timestamp.proto", "Duration": "google/protobuf/duration.proto", "Empty": "google/protobuf/empty.proto"}
STRESS_NAMES = ["from", "in", "class", "self", "value", "type", "id", "foo_bar", "fooBar", "x1", "with", "global", "lambda", "none", "is", "def",
                "match", "case", "list", "dict", "str", "bytes", "name", "_private", "trailing_", "v1beta", "sha256sum", "x2y", "ipv4_addrs",
                "peerIDs", "HTTPStatus", "a__b", "int", "float", "bool", "object"]
PKG_SHAPES = [[""], ["a"], ["a", "a.b"], ["a", "b"], ["a.b", "a.c"], ["", "a"], ["a.b.c", "a"], ["a.b", "a.b.c", "x"], ["a", "a.b", "a.b.c"]]


class Prog:
    def __init__(self):
        self.files = {}          # pkg -> dict(msgs=[...], enums=[...], services=[...], imports=set())
        self.types = []          # (pkg, full name relative to pkg e.g. "M0.N1", kind)


def path_of(pkg, tier=0):
    """two files per package: tier-1 files may import tier-0 files of any package (so packages can depend on each other
    circularly although files cannot)"""
    return (pkg.replace(".", "/") + "/" if pkg else "") + ("p_%s_%d.proto" % (pkg.replace(".", "_") or "root", tier))


def _json_name(n):
    parts = n.split("_")
    return (parts[0] + "".join(p[:1].upper() + p[1:] for p in parts[1:])).lower()     # compared case-insensitively, to be safe


def qual(pkg, rel):
    return ("." + pkg + "." + rel) if pkg else ("." + rel)


def gen_enum(rnd, name, scope_prefix):
    n = rnd.randint(1, 4)
    vals = [(scope_prefix + "_ZERO", 0)]
    nums = [0]
    for i in range(1, n):
        c = rnd.random()
        if c < .2:
            v = -rnd.randint(1, 100)
        elif c < .3:
            v = rnd.choice([2**31 - 1, -2**31])
        elif c < .45 and nums:
            v = rnd.choice(nums)
        else:
            v = rnd.randint(1, 300)
        nums.append(v)
        vals.append(("%s_V%d" % (scope_prefix, i), v))
    alias = len(set(nums)) != len(nums)
    return {"name": name, "values": vals, "alias": alias}


def gen_program(rnd, shape=None, n_msgs=(1, 3), with_services=True, max_fields=7):
    pkgs = list(shape if shape is not None else rnd.choice(PKG_SHAPES))
    P = Prog()
    # first pass: declare types
    k = 0
    for pkg, tier in [(p, t) for p in pkgs for t in (0, 1)]:
        F = {"msgs": [], "enums": [], "services": [], "imports": set()}
        P.files[(pkg, tier)] = F
        for _ in range(rnd.randint(*n_msgs) if tier == 1 else rnd.randint(1, 2)):
            m = {"name": "M%d" % k, "nested": [], "enums": [], "fields": [], "oneofs": []}
            k += 1
            P.types.append((pkg, m["name"], "msg", tier))
            for j in range(rnd.choice([0, 0, 1, 2])):
                nm = {"name": "N%d" % j, "nested": [], "enums": [], "fields": [], "oneofs": []}
                m["nested"].append(nm)
                P.types.append((pkg, m["name"] + "." + nm["name"], "msg", tier))
                if rnd.random() < .3:
                    nn = {"name": "D0", "nested": [], "enums": [], "fields": [], "oneofs": []}
                    nm["nested"].append(nn)
                    P.types.append((pkg, m["name"] + "." + nm["name"] + ".D0", "msg", tier))
            if rnd.random() < .4:
                e = gen_enum(rnd, "K%d" % len(m["enums"]), "%s_K%d" % (m["name"].upper(), len(m["enums"])))
                m["enums"].append(e)
                P.types.append((pkg, m["name"] + "." + e["name"], "enum", tier))
            F["msgs"].append(m)
        for j in range(rnd.choice([0, 1, 1, 2])):
            e = gen_enum(rnd, "E%d" % (k + j), "E%d" % (k + j))
            F["enums"].append(e)
            P.types.append((pkg, e["name"], "enum", tier))
        k += 3
    msgs = [t for t in P.types if t[2] == "msg"]
    enums = [t for t in P.types if t[2] == "enum"]

    def ref(pkgt, kind):
        pkg, tier = pkgt
        pool = [t for t in (msgs if kind == "msg" else enums) if (t[0] == pkg and t[3] == tier) or (tier == 1 and t[3] == 0)]
        if not pool:
            return None
        same = [t for t in pool if t[0] == pkg]
        t = rnd.choice(same) if same and rnd.random() < .4 else rnd.choice(pool)
        if (t[0], t[3]) != (pkg, tier):
            P.files[pkgt]["imports"].add(path_of(t[0], t[3]))
        return qual(t[0], t[1])

    def fill(pkg, m, depth=0):
        num = 1
        names = set()

        def fname():
            nonlocal num
            n = rnd.choice(STRESS_NAMES) if rnd.random() < .2 else "f%d" % num
            # protoc rejects two fields of one message whose default JSON names coincide (foo_bar / fooBar)
            while _json_name(n) in names:
                n = "f%d_%d" % (num, len(names))
            names.add(_json_name(n))
            return n

        def ftype():
            c = rnd.random()
            if c < .45:
                return rnd.choice(SCALARS)
            if c < .6:
                r = ref(pkg, "enum")
                return r or "int32"
            if c < .85:
                return ref(pkg, "msg") or "bytes"
            w = rnd.choice(WKT)
            short = w.split(".")[-1]
            P.files[pkg]["imports"].add(WKT_IMPORT.get(short, "google/protobuf/wrappers.proto"))
            return "." + w

        nf = rnd.randint(0, max_fields)
        for _ in range(nf):
            c = rnd.random()
            if c < .12:
                vt = ftype()
                while vt.startswith(".google") and rnd.random() < .9:      # (map values of well-known types: rare, a recorded finding)
                    vt = ftype()
                m["fields"].append("map<%s, %s> %s = %d;" % (rnd.choice(MAPKEYS), vt.lstrip(".") if vt.startswith(".google") else vt, fname(), num))
            elif c < .27:
                m["fields"].append("repeated %s %s = %d;" % (ftype(), fname(), num))
            elif c < .4:
                m["fields"].append("optional %s %s = %d;" % (ftype(), fname(), num))
            elif c < .52:
                on = "g%d" % len(m["oneofs"])
                mem = []
                for _ in range(rnd.randint(1, 3)):
                    mem.append("%s %s = %d;" % (ftype(), fname(), num))
                    num += rnd.choice([1, 1, 3])
                m["oneofs"].append((on, mem))
                continue
            else:
                m["fields"].append("%s %s = %d;" % (ftype(), fname(), num))
            num += rnd.choice([1, 1, 1, 5, 100, 2000])
        for nm in m["nested"]:
            fill(pkg, nm, depth + 1)

    for pkg in list(P.files):
        for m in P.files[pkg]["msgs"]:
            fill(pkg, m)
        if with_services and pkg[1] == 1 and msgs and rnd.random() < .6:
            meths = []
            for j in range(rnd.randint(1, 3)):
                cs, ss = rnd.random() < .4, rnd.random() < .4
                i, o = ref(pkg, "msg"), ref(pkg, "msg")
                if not i or not o:
                    continue
                if rnd.random() < .15:
                    i = ".google.protobuf.Empty"
                    P.files[pkg]["imports"].add(WKT_IMPORT["Empty"])
                meths.append("rpc %s (%s%s) returns (%s%s);" % (rnd.choice(["Do", "GetThing", "list_all", "streamIt", "X"]) + str(j),
                                                              "stream " if cs else "", i, "stream " if ss else "", o))
            if meths:
                P.files[pkg]["services"].append(("Svc%s" % (pkg[0].replace(".", "_").upper() or "ROOT"), meths))
    return render(P)


def render_enum(e, ind):
    s = ind + "enum %s {\n" % e["name"]
    if e["alias"]:
        s += ind + "  option allow_alias = true;\n"
    for n, v in e["values"]:
        s += ind + "  %s = %d;\n" % (n, v)
    return s + ind + "}\n"


def render_msg(m, ind=""):
    s = ind + "message %s {\n" % m["name"]
    for e in m["enums"]:
        s += render_enum(e, ind + "  ")
    for nm in m["nested"]:
        s += render_msg(nm, ind + "  ")
    for f in m["fields"]:
        s += ind + "  " + f + "\n"
    for on, mem in m["oneofs"]:
        s += ind + "  oneof %s {\n" % on
        for f in mem:
            s += ind + "    " + f + "\n"
        s += ind + "  }\n"
    return s + ind + "}\n"


def render(P):
    out = {}
    for (pkg, tier), F in P.files.items():
        s = 'syntax = "proto3";\n'
        if pkg:
            s += "package %s;\n" % pkg
        for imp in sorted(F["imports"]):
            if imp != path_of(pkg, tier):
                s += 'import "%s";\n' % imp
        for e in F["enums"]:
            s += render_enum(e, "")
        for m in F["msgs"]:
            s += render_msg(m)
        for name, meths in F["services"]:
            s += "service %s {\n" % name + "".join("  " + x + "\n" for x in meths) + "}\n"
        out[path_of(pkg, tier)] = s
    return out
