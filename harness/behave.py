"""Run in a fresh interpreter: import the generated package under <root>, build one deterministic instance of every
message class from its field metadata (the same abstract values whatever the generation options), and print
{module:Class: [bytes hex, json text, which_one_of per group]}.  Used to compare plugin option combinations (C18)."""
import dataclasses
import importlib
import json
import pkgutil
import sys
import typing
import zlib
from datetime import datetime, timedelta, timezone


def _bp():
    import betterproto
    return betterproto


def scalar(pt, h):
    if pt in ("int32", "sint32", "sfixed32"):
        return (h % 4001) - 2000
    if pt in ("int64", "sint64", "sfixed64"):
        return (h % 10**12) - 5 * 10**11
    if pt in ("uint32", "fixed32"):
        return h % 2**32
    if pt in ("uint64", "fixed64"):
        return (h * 2654435761) % 2**64
    if pt == "bool":
        return h % 2 == 0
    if pt in ("float", "double"):
        return (h % 1000) / 8.0
    if pt == "string":
        return "s%d" % (h % 97)
    if pt == "bytes":
        return bytes([h % 256, (h >> 8) % 256])
    raise KeyError(pt)

def value(cls, f, md, hint, h, depth):
    origin = typing.get_origin(hint)
    args = [a for a in typing.get_args(hint) if a is not type(None)]
    if md.proto_type == "map":
        kt, vt = md.map_types
        key = scalar(kt, h)
        if vt in ("message", "enum"):
            return None
        return {key: scalar(vt, h + 1)}
    if origin is list:
        inner = args[0]
        xs = [single(md, inner, h + i, depth) for i in range(2)]
        return [x for x in xs if x is not None]
    if origin is not None and args:
        return single(md, args[0], h, depth)
    return single(md, hint, h, depth)

def single(md, t, h, depth):
    if md.proto_type == "enum":
        members = list(t)
        if h % 3 == 0:
            return t.try_value(90 + h % 7)        # enums are open: a number the enum does not define is a value too
        if h % 7 == 1:
            return t.try_value(-(3 + h % 5))      # ... a negative one as well, whether or not the enum declares negative numbers
        return members[h % len(members)]
    if md.proto_type == "message":
        if t is datetime:
            return datetime(2001, 2, 3, 4, 5, 6, tzinfo=timezone.utc) + timedelta(seconds=h % 1000)
        if t is timedelta:
            return timedelta(seconds=h % 1000, microseconds=1000 * (h % 7))
        if md.wraps:
            return scalar(md.wraps, h)
        if depth > 1 or not dataclasses.is_dataclass(t):
            return None
        return build(t, depth + 1)
    return scalar(md.proto_type, h)

def build(cls, depth=0, salt=""):
    hints = typing.get_type_hints(cls, vars(sys.modules[cls.__module__]), {})
    kw = {}
    groups = set()
    for f in dataclasses.fields(cls):
        md = _bp().FieldMetadata.get(f)
        h = zlib.crc32(("%s.%d%s" % (cls.__name__.lower(), md.number, salt)).encode())
        if md.group:
            if md.group in groups:
                continue
            groups.add(md.group)
        v = value(cls, f, md, hints[f.name], h, depth)
        if v is not None:
            kw[f.name] = v
    return cls(**kw)



def main(root, repo_src):
    sys.path.insert(0, repo_src)
    sys.path.insert(0, root)
    import betterproto
    out = {"import": "ok", "classes": {}, "errors": []}

    def walk(pkgname):
        mod = importlib.import_module(pkgname)
        yield pkgname, mod
        if hasattr(mod, "__path__"):
            for m in pkgutil.iter_modules(mod.__path__):
                yield from walk(pkgname + "." + m.name)

    try:
        for name, mod in walk("gen"):
            for k, v in sorted(vars(mod).items()):
                if isinstance(v, type) and getattr(v, "__module__", None) == mod.__name__ and issubclass(v, betterproto.Message):
                    key = name[4:] + ":" + "".join(c for c in k.lower() if c.isalnum())
                    try:
                        m = build(v)
                        groups = sorted({betterproto.FieldMetadata.get(f).group for f in dataclasses.fields(v) if betterproto.FieldMetadata.get(f).group})
                        rec = [bytes(m).hex(), m.to_json(), [betterproto.which_one_of(m, g)[0] for g in groups]]
                        # the same class after a wire round trip and after selecting another member of each oneof by assignment
                        p = v().parse(bytes(m))
                        for g in groups:
                            cur = betterproto.which_one_of(p, g)[0]
                            for f in dataclasses.fields(v):
                                md = betterproto.FieldMetadata.get(f)
                                if md.group == g and f.name != cur and md.proto_type not in ("message", "enum", "map"):
                                    setattr(p, f.name, scalar(md.proto_type, 0))        # (its zero-ish value: still the selected member)
                                    break
                        rec += [bytes(p).hex(), p.to_json(), [betterproto.which_one_of(p, g)[0] for g in groups]]
                        out["classes"][key] = rec
                    except Exception as ex:
                        out["errors"].append([key, type(ex).__name__ + ": " + str(ex)[:150]])
    except Exception as ex:
        out["import"] = type(ex).__name__ + ": " + str(ex)[:300]
    json.dump(out, sys.stdout)


if __name__ == "__main__":
    main(sys.argv[1], sys.argv[2])
