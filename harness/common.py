"""Shared plumbing: paths, scratch directories, running TLC/SANY, parsing TLC output.

Nothing in here decides a property: TLC evaluates the specification, this module
transports files and parses the lines TLC prints.
"""
import json
import os
import re
import shutil
import subprocess
import sys
import time

VERIF = os.path.dirname(os.path.dirname(os.path.abspath(__file__)))
REPO = os.environ.get("VERIF_REPO", "/repo")
OUT = os.environ.get("VERIF_OUT", VERIF)      # evidence/ and replay/ go here (seed runs redirect them)
SPEC = os.path.join(VERIF, "spec")
WORKROOT = os.path.join(VERIF, ".work")
TLA_CP = "/opt/veriftools/tla/tla2tools.jar:/opt/veriftools/tla/CommunityModules-deps.jar"
PY = "/venv/bin/python"
NCPU = min(16, os.cpu_count() or 4)


class MachineryError(Exception):
    pass


def workdir(name):
    d = os.path.join(WORKROOT, "%s-%d" % (name, os.getpid()))
    shutil.rmtree(d, ignore_errors=True)
    os.makedirs(d)
    return d


def rmtree(d):
    shutil.rmtree(d, ignore_errors=True)


_SUMMARY = re.compile(r"(\d+) states generated, (\d+) distinct states found")


class TlcResult:
    def __init__(self, out, rc, wall):
        self.out, self.rc, self.wall = out, rc, wall
        m = None
        for m in _SUMMARY.finditer(out):
            pass
        self.generated = int(m.group(1)) if m else 0
        self.distinct = int(m.group(2)) if m else 0
        self.violated = None
        mv = re.search(r"Invariant (\w+) is violated", out)
        if mv:
            self.violated = mv.group(1)
        mv = re.search(r"Action property (\w+) is violated", out) or re.search(
            r"Temporal properties were violated", out)
        if mv and not self.violated:
            self.violated = mv.group(1) if mv.groups() else "temporal"
        self.ok = rc == 0 and "Model checking completed. No error has been found" in out
        self.finished = "Model checking completed" in out or "Finished in" in out
        md = re.search(r"The depth of the complete state graph search is (\d+)", out)
        self.depth = int(md.group(1)) if md else 0

    def error_text(self):
        lines = [l for l in self.out.splitlines() if "rror" in l or "violated" in l]
        return "\n".join(lines[:12])

    def printed(self):
        """Values printed with PrintT (tuples), parsed from TLC's textual syntax.  TLC wraps long values over
        several lines, so lines are joined until the << >> brackets balance."""
        from . import tlaval
        vals = []
        buf, depth = None, 0
        for line in self.out.splitlines():
            if buf is None:
                if not line.startswith("<<"):
                    continue
                buf, depth = "", 0
            buf += line + " "
            depth += line.count("<<") - line.count(">>")
            if depth <= 0:
                try:
                    vals.append(tlaval.parse(buf))
                except Exception:
                    pass
                buf = None
        return vals

    def coverage(self):
        """action name -> (distinct, total) from `-coverage` output."""
        cov = {}
        for m in re.finditer(r"<(\w+) line \d+, col \d+ to line \d+, col \d+ of module (\w+)>: (\d+):(\d+)", self.out):
            name = m.group(1)
            d, t = int(m.group(3)), int(m.group(4))
            od, ot = cov.get(name, (0, 0))
            cov[name] = (max(od, d), max(ot, t))
        return cov


def tlc(module, cfg=None, workers=None, cwd=SPEC, env=None, timeout=1800, extra=(), coverage=False,
        deadlock=False, simulate=None, depth=None, seed=None, heap="6g", metadir=None):
    """Run TLC on spec/<module>.tla.  Returns TlcResult.  Raises MachineryError on parse/semantic errors."""
    own_meta = metadir is None
    if own_meta:
        metadir = os.path.join(WORKROOT, "meta-%d-%d" % (os.getpid(), int(time.time() * 1e6) % 10**9))
    os.makedirs(metadir, exist_ok=True)
    # (TLC leaves an empty tlc-<n> directory in java.io.tmpdir per run: keep them inside the run's own scratch directory)
    cmd = ["java", "-XX:+UseParallelGC", "-Xmx" + heap, "-Xss16m", "-Djava.io.tmpdir=" + metadir, "-DTLA-Library=" + SPEC, "-cp", TLA_CP, "tlc2.TLC",
           "-metadir", metadir, "-noGenerateSpecTE", "-workers", str(workers or 1)]
    if cfg:
        cmd += ["-config", cfg]
    if coverage:
        cmd += ["-coverage", "1"]
    if deadlock:
        cmd += ["-deadlock"]
    if simulate:
        cmd += ["-simulate", simulate]
    if depth:
        cmd += ["-depth", str(depth)]
    if seed is not None:
        cmd += ["-seed", str(seed)]
    cmd += list(extra) + [module]
    e = dict(os.environ)
    e.update(env or {})
    t0 = time.time()
    try:
        p = subprocess.run(cmd, cwd=cwd, env=e, stdout=subprocess.PIPE, stderr=subprocess.STDOUT,
                           timeout=timeout, text=True, errors="replace")
        out, rc = p.stdout, p.returncode
    except subprocess.TimeoutExpired as ex:
        out = (ex.stdout.decode("utf-8", "replace") if isinstance(ex.stdout, bytes) else (ex.stdout or "")) + "\nTIMEOUT\n"
        rc = 124
    finally:
        if own_meta:
            shutil.rmtree(metadir, ignore_errors=True)
    r = TlcResult(out, rc, time.time() - t0)
    if re.search(r"(Parsing or semantic analysis failed|\*\*\* Errors:|Unknown operator|Could not find|Was expecting)", out) and not r.finished:
        raise MachineryError("TLC could not load %s:\n%s" % (module, out[-3000:]))
    return r


def write_cfg(path, text):
    with open(path, "w") as f:
        f.write(text)
    return path


def dump_json(path, obj):
    with open(path, "w") as f:
        json.dump(obj, f, separators=(",", ":"), default=lambda o: "<%s object>" % type(o).__name__)    # (never crash on an odd object)
    return path


def eprint(*a):
    print(*a, file=sys.stderr, flush=True)
