"""C12 AsyncChannel: exactly-once ordered delivery, no stranded receiver.

(1) TLC explores every placement of Wake/Cancel among the atomic steps of the faithful model
    spec/AsyncChannel.tla for a family of small programs (invariants + liveness).
(2) spec -> code: TLC-simulated behaviours are applied action by action to the real asyncio
    classes on harness/steploop.py; after every action the model state is compared with the real
    one (drift detection), the run is drained to quiescence and its public call/return log is
(3) code -> spec: stepped by TLC through spec/AbsChannel.tla (the property as users see it).
    Seeded random schedules, generated without the model, go through (3) as well.
"""
import glob
import json
import os
import random

from .. import common, steploop, tlaval
from ..common import MachineryError

LEVEL = "model_checking"
HANDLES_REPLAY = True

INVS = ["TypeOK", "NoDuplicate", "NoInvention", "NoStranded", "CancelSurfaces", "NoSpuriousError", "AllDelivered", "NothingDestroyed",
        "PerSenderFifo", "SendAfterClose"]


def S(item):
    return {"op": "send", "item": item}


def SF(items, close):
    return {"op": "sendfrom", "items": list(items), "close": close}


RL, IL, R1, N1, CL = {"op": "recvloop"}, {"op": "iterloop"}, {"op": "recv"}, {"op": "next"}, {"op": "close"}

# name, prog, maxsize, cancel targets, MaxPre
QUICK = [
    ("p1", {"s1": [S(1), S(2), CL], "r1": [RL], "r2": [IL]}, 0, ["r1"], 1),
    ("p2", {"s1": [SF([1, 2], True)], "r1": [RL], "r2": [RL]}, 1, ["r1"], 1),
    ("p3", {"s1": [S(1)], "s2": [S(2), CL], "r1": [IL], "r2": [R1, R1]}, 0, ["r1"], 0),
    ("p4", {"s1": [SF([1, 2, 3], False), CL, S(4)], "r1": [IL]}, 1, ["r1"], 1),
    ("p5", {"c1": [CL], "s1": [S(1), S(2)], "r1": [RL], "r2": [N1]}, 2, ["r2"], 1),
    ("p6", {"s1": [S(1), S(2)], "c1": [CL], "r1": [RL], "r2": [RL], "r3": [IL]}, 1, ["r2"], 0),
]
THOROUGH = QUICK + [
    ("t1", {"s1": [SF([1, 2], True)], "s2": [S(3), S(4)], "r1": [RL], "r2": [IL], "r3": [R1, R1]}, 1, ["r1"], 0),
    ("t2", {"s1": [S(1), S(2), S(3)], "c1": [CL], "r1": [RL], "r2": [IL]}, 2, ["r2"], 1),
    ("t3", {"s1": [SF([1, 2, 3], True)], "r1": [RL], "r2": [IL], "r3": [RL]}, 0, ["r3"], 1),
    ("t4", {"s1": [S(1), S(2)], "s2": [S(3), CL, S(4)], "r1": [IL], "r2": [IL]}, 1, ["r1"], 1),
]
LIVENESS = ("l1", {"s1": [S(1), CL], "r1": [RL], "r2": [IL]}, 1, ["r1"], 0)


def tla_op(op):
    if op["op"] == "send":
        return '[op |-> "send", item |-> %d]' % op["item"]
    if op["op"] == "sendfrom":
        return '[op |-> "sendfrom", items |-> <<%s>>, close |-> %s]' % (", ".join(map(str, op["items"])), "TRUE" if op["close"] else "FALSE")
    return '[op |-> "%s"]' % op["op"]


def mc_module(name, prog):
    cases = " [] ".join('t = "%s" -> << %s >>' % (t, ", ".join(tla_op(o) for o in ops)) for t, ops in sorted(prog.items()))
    return ("---- MODULE %s ----\nEXTENDS AsyncChannel\nMCTasks == {%s}\nMCProg == [t \\in MCTasks |-> CASE %s ]\nMCFlush == <<\"F1\", \"F2\">>\n====\n"
            % (name, ", ".join('"%s"' % t for t in sorted(prog)), cases))


def mc_cfg(maxsize, cancel, maxpre, in_finally, invs=INVS, spec="Spec", props=()):
    return ("SPECIFICATION %s\nCONSTANTS\n  Tasks <- MCTasks\n  Prog <- MCProg\n  MaxSize = %d\n  FlushIds <- MCFlush\n  CancelTargets = {%s}\n"
            "  MaxCancels = 1\n  MaxPre = %d\n  TaskDoneInFinally = %s\n%s%sCHECK_DEADLOCK FALSE\n"
            % (spec, maxsize, ", ".join('"%s"' % c for c in cancel), maxpre, "TRUE" if in_finally else "FALSE",
               "".join("INVARIANT %s\n" % i for i in invs), "".join("PROPERTY %s\n" % p for p in props)))


def replay_one(args):
    """apply one TLC behaviour to the real classes; returns (drift info or None, log)"""
    path, prog, maxsize = args
    steps = tlaval.parse_sim_file(path)
    w = steploop.World(prog, maxsize)
    drift = None
    acts = []
    for n, (act, a, st) in enumerate(steps):
        if act == "Init":
            pass
        elif act == "Wake":
            w.wake(a[0])
        elif act == "Cancel":
            w.cancel(a[0])
        elif act == "RunHead":
            w.run_head()
        else:
            raise MachineryError("unknown action %s in %s" % (act, path))
        acts.append([act] + list(a))
        if drift is None:
            real, model = w.observe(), steploop.model_obs(st["s"], set(prog))
            if real != model:
                keys = [k for k in real if real[k] != model[k]]
                drift = {"step": n, "action": [act] + list(a), "public": any(k in steploop.PUBLIC for k in keys),
                         "diff": {k: [repr(real[k]), repr(model[k])] for k in keys}}
    ok = w.drain()
    return drift, {"tasks": sorted(w.prog), "log": w.log, "schedule": acts, "prog": prog, "maxsize": maxsize,
                   "drained": ok, "loop_exceptions": len(w.loop.exc)}, len(steps)


def random_run(args):
    """model-free: a seeded random schedule of Wake / RunHead / Cancel / timer firing on the real classes"""
    prog, maxsize, cancel, seed = args
    rnd = random.Random(seed)
    w = steploop.World(prog, maxsize)
    acts = []
    cancelled = False
    for _ in range(rnd.randint(5, 60)):
        choices = []
        if w.loop.has_ready():
            choices += ["run"] * 4
        wakeable = [t for t in sorted(prog) if not w.tasks[t].done() and w.released[t] < w.awaited[t] + 1 and w.released[t] < len(prog[t]) + 8]
        if wakeable:
            choices += ["wake"] * 3
        if cancel and not cancelled:
            choices += ["cancel"]
        if w.loop._timers:
            choices += ["timer"]
        if not choices:
            break
        c = rnd.choice(choices)
        if c == "run":
            w.run_head()
            acts.append(["RunHead"])
        elif c == "wake":
            t = rnd.choice(wakeable)
            w.wake(t)
            acts.append(["Wake", t])
        elif c == "cancel":
            t = rnd.choice(cancel)
            if not w.tasks[t].done():
                w.cancel(t)
                cancelled = True
                acts.append(["Cancel", t])
        else:
            w.loop.fire_timers()
            acts.append(["Timer"])
    # timers of wait_for: fire the rest so that timed receives time out (surfacing as Timeout)
    ok = w._settle()
    for _ in range(4):
        if not w.loop.fire_timers():
            break
        ok = w._settle()
    ok = w.drain() and ok
    return {"tasks": sorted(w.prog), "log": w.log, "schedule": acts, "prog": prog, "maxsize": maxsize, "drained": ok,
            "loop_exceptions": len(w.loop.exc)}


def random_prog(rnd):
    prog = {}
    item = 1
    ns = rnd.randint(1, 2)
    closer_done = False
    for i in range(ns):
        ops = []
        if rnd.random() < .4:
            k = rnd.randint(0, 3)
            cl = rnd.random() < .5 and not closer_done
            ops.append(SF(range(item, item + k), cl))
            closer_done |= cl
            item += k
        else:
            for _ in range(rnd.randint(1, 3)):
                ops.append(S(item))
                item += 1
        if not closer_done and rnd.random() < .4:
            ops.append(CL)
            closer_done = True
            if rnd.random() < .5:
                ops.append(S(item))
                item += 1
        prog["s%d" % (i + 1)] = ops
    if not closer_done or rnd.random() < .2:
        prog["c1"] = [CL]
    for i in range(rnd.randint(1, 3)):
        c = rnd.random()
        if c < .35:
            ops = [RL]
        elif c < .7:
            ops = [IL]
        elif c < .85:
            ops = [R1] * rnd.randint(1, 3)
        else:
            ops = [{"op": "recvto", "timeout": 5.0}, RL]
        prog["r%d" % (i + 1)] = ops
    recv = [t for t in prog if t.startswith("r")]
    return prog, rnd.choice([0, 0, 1, 2]), ([rnd.choice(recv)] if rnd.random() < .6 else [])


def run(ctx):
    quick = ctx.tier == "quick"
    ctx.rule = ("schedules = sequences of Wake(t)/RunHead/Cancel(t) over the FIFO ready queue; exhaustive in TLC per program of the family; "
                "TLC-simulated behaviours replayed on the real asyncio classes + seeded random model-free schedules of random programs; "
                "a run is non-trivial when at least one item was sent and one receive was issued; distinct by (program, schedule)")
    ctx.assumptions = ["the stock asyncio loop runs ready handles FIFO (BaseEventLoop._run_once); steploop.py reproduces exactly that",
                       "CPython 3.12 asyncio.Queue/Task/Future semantics as modelled in spec/AsyncChannel.tla (conformance-checked every step)",
                       "senders and the flush task are not cancelled in the explored programs"]
    if ctx.replay:
        return run_replay(ctx)
    family = QUICK if quick else THOROUGH
    nsim = 250 if quick else 2500
    runs = []
    drifts = []
    nsteps = 0
    for (name, prog, maxsize, cancel, maxpre) in family:
        mod = "MC_AC_" + name
        with open(os.path.join(ctx.work, mod + ".tla"), "w") as f:
            f.write(mc_module(mod, prog))
        r = ctx.mc(mod, mc_cfg(maxsize, cancel, maxpre, False), name=mod, expect_actions=("RunHead", "Wake", "Cancel"),
                   timeout=900 if quick else 3000, cwd=ctx.work)
        # behaviours for the replay
        simdir = os.path.join(ctx.work, "sim_" + name)
        os.makedirs(simdir)
        cfg = common.write_cfg(os.path.join(ctx.work, mod + "_sim.cfg"), mc_cfg(maxsize, cancel, maxpre, False, invs=[]))
        rs = common.tlc(mod, cfg=cfg, workers=1, cwd=ctx.work, simulate="file=%s/tr,num=%d" % (simdir, nsim), depth=60,
                        seed=ctx.seed + 1, timeout=600)
        files = sorted(glob.glob(simdir + "/tr*"))
        if len(files) < nsim // 2:
            raise MachineryError("TLC simulation produced %d behaviours for %s:\n%s" % (len(files), name, rs.out[-1500:]))
        for d, run_, n in ctx.pmap(replay_one, [(p, prog, maxsize) for p in files]):
            run_["family"] = name
            runs.append(run_)
            nsteps += n
            if d:
                d["program"] = name
                drifts.append(d)
    # the model must still see the design defect of the pinned code (vacuity control for CancelSurfaces)
    name, prog, maxsize, cancel, maxpre = QUICK[0]
    mod = "MC_AC_regress"
    with open(os.path.join(ctx.work, mod + ".tla"), "w") as f:
        f.write(mc_module(mod, prog))
    r = ctx.mc(mod, mc_cfg(maxsize, cancel, maxpre, True, invs=["CancelSurfaces"]), name=mod, allow_violation=True, coverage=False, cwd=ctx.work)
    if r.violated != "CancelSurfaces":
        raise MachineryError("negative control: the model with task_done() in finally no longer violates CancelSurfaces")
    ctx.mc_runs[-1]["note"] = "negative control (pinned-code variant): violation expected and found"
    # liveness on a small program: closed ~> all receivers done, under weak fairness of RunHead and Wake
    name, prog, maxsize, cancel, maxpre = LIVENESS
    mod = "MC_AC_live"
    with open(os.path.join(ctx.work, mod + ".tla"), "w") as f:
        f.write(mc_module(mod, prog))
    ctx.mc(mod, mc_cfg(maxsize, [], maxpre, False, invs=["TypeOK"], spec="FairSpec", props=["Termination"]), name=mod,
           workers=4, coverage=False, cwd=ctx.work)
    # model-free random schedules of random programs
    rnd = ctx.rnd
    rr = []
    for k in range(1500 if quick else 30000):
        prog, maxsize, cancel = random_prog(rnd)
        rr.append((prog, maxsize, cancel, rnd.getrandbits(32)))
    for run_ in ctx.pmap(random_run, rr):
        run_["family"] = "random"
        runs.append(run_)
    for run_ in runs:
        nontrivial = any(e["ev"] == "call" and e["op"] in ("send", "sendfrom") for e in run_["log"]) and \
            any(e["ev"] == "call" and e["op"] in ("recv", "next") for e in run_["log"])
        ctx.count_case((json.dumps(run_["prog"], sort_keys=True), run_["maxsize"], json.dumps(run_["schedule"])), nontrivial)
    ctx.sample({"program": runs[0]["prog"], "schedule": runs[0]["schedule"][:25], "log": runs[0]["log"][:12]})
    ctx.sample({"program": runs[-1]["prog"], "schedule": runs[-1]["schedule"][:25]})
    events = [{"tasks": r_["tasks"], "log": [e for e in r_["log"] if e["ev"] != "note"], "case": {"prog": r_["prog"], "maxsize": r_["maxsize"],
               "schedule": r_["schedule"], "family": r_["family"]}} for r_ in runs]
    for e in events:
        for ev in e["log"]:
            ev.setdefault("blocked", [])
            ev.setdefault("finished", [])
            ev.setdefault("loopers", [])
            ev.setdefault("anycancel", False)
            ev.setdefault("timed", False)
            ev.setdefault("unlogged_cancel", False)
    ctx.validate("Trace_AbsChannel", events, shard=400)
    pinned_test_traces(ctx)
    ctx.notes["model_drift_cases"] = len(drifts)
    ctx.notes["model_drift_samples"] = drifts[:3]
    ctx.notes["replayed_behaviours"] = len(runs) - len(rr)
    ctx.notes["replayed_model_steps_compared"] = nsteps
    ctx.notes["random_model_free_runs"] = len(rr)
    if drifts:
        print("NOTE: %d of %d replayed behaviours deviate from spec/AsyncChannel.tla (model drift; criteria are still decided on the real runs)"
              % (len(drifts), len(runs) - len(rr)))


def pinned_test_traces(ctx):
    """code -> spec on the repository's own channel tests: run tests/grpc/test_stream_stream.py with the env-guarded hook
    (BETTERPROTO_VERIF_TRACE) and step the recorded call/return events of every channel through AbsChannel.  A corrupted
    copy of the first trace must be rejected (the binding is real)."""
    import subprocess
    path = os.path.join(ctx.work, "pinned_trace.ndjson")
    env = dict(os.environ, BETTERPROTO_VERIF_TRACE=path, PYTHONPATH=os.path.join(common.REPO, "src"))
    p = subprocess.run([common.PY, "-m", "pytest", "-q", "-p", "no:cacheprovider", "tests/grpc/test_stream_stream.py"], cwd=common.REPO, env=env,
                       stdout=subprocess.PIPE, stderr=subprocess.STDOUT, text=True, timeout=600)
    if not os.path.exists(path):
        ctx.notes["pinned_test_traces"] = "hook inactive or tests not runnable: " + p.stdout[-200:]
        return
    recs = [json.loads(l) for l in open(path)]
    chans = {}
    for r_ in recs:
        chans.setdefault((r_["pid"], r_["ch"]), []).append(r_)
    runs = []
    for key, evs in sorted(chans.items()):
        log = []
        for e in sorted(evs, key=lambda x: x["seq"]):
            log.append({"ev": e["ev"], "t": e["t"], "op": e["op"], "items": e.get("items", []), "close": bool(e.get("close", False)),
                        "closed": e["closed"], "r": e.get("r", ""), "v": e.get("v", 0), "timed": False, "unlogged_cancel": True,
                        "blocked": [], "finished": [], "loopers": [], "anycancel": False})
        runs.append({"tasks": sorted({e["t"] for e in evs}), "log": log, "case": {"source": "tests/grpc/test_stream_stream.py", "channel": key[1]}})
    for run_ in runs:
        ctx.count_case(("pinned", json.dumps(run_["log"])), True)
    ctx.validate("Trace_AbsChannel", runs, shard=50)
    ctx.notes["pinned_test_channels_validated"] = len(runs)
    ctx.notes["pinned_test_events"] = len(recs)
    # negative control: corrupt one recorded field
    import copy as _copy
    bad = _copy.deepcopy(next(r_ for r_ in runs if any(e["r"] == "item" for e in r_["log"])))
    next(e for e in bad["log"] if e["r"] == "item")["v"] = 999
    before = len(ctx.violations)
    ctx.validate("Trace_AbsChannel", [bad], shard=50)
    if len(ctx.violations) != before + 1 or ctx.violations[-1][0] != "invented_item":
        raise MachineryError("negative control: a corrupted pinned-test trace was not rejected as invented_item")
    ctx.violations.pop()
    ctx.evaluations -= 1
    ctx.notes["negative_control"] = "corrupted pinned-test trace rejected (invented_item)"


def run_replay(ctx):
    case = json.load(open(ctx.replay))["case"]["case"]
    w = steploop.World(case["prog"], case["maxsize"])
    for a in case["schedule"]:
        if a[0] == "Wake":
            w.wake(a[1])
        elif a[0] == "Cancel":
            w.cancel(a[1])
        elif a[0] == "RunHead":
            w.run_head()
        elif a[0] == "Timer":
            w.loop.fire_timers()
    w._settle()
    for _ in range(4):
        if not w.loop.fire_timers():
            break
        w._settle()
    w.drain()
    for ev in w.log:
        ev.setdefault("blocked", [])
        ev.setdefault("finished", [])
        ev.setdefault("loopers", [])
        ev.setdefault("anycancel", False)
        ev.setdefault("timed", False)
        ev.setdefault("unlogged_cancel", False)
        print(ev)
    ctx.validate("Trace_AbsChannel", [{"tasks": sorted(w.prog), "log": w.log, "case": case}])
