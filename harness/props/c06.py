"""C06 Proto3 defaults and field presence are encoded and recovered correctly."""
from .. import gen, hist, msgev

from ..common import MachineryError

LEVEL = "model_checking"


def matrix(schema):
    """every field kind x {never set, set to default, set to non-default} x {constructor, attribute, parse, from_dict}"""
    out = []
    for ty in ("TImpl", "TOpt", "TOne", "TWkt", "TRep", "TMapV", "TMix"):
        out.append((ty, [{"op": "new", "kw": []}, {"op": "observe"}]))
        for f in schema["types"][ty]:
            dom = gen.field_domain(schema, f)
            vals = [v for v in dom[:2]] + [dom[-1]]
            if f["kind"] == "message" and f["card"] in ("implicit", "optional", "oneof"):
                vals.append({"k": "msg", "m": gen.fresh(schema, f["msg"]), "fresh": True})
            for v in vals:
                v = hist.with_fresh(v, v.get("fresh", False)) if isinstance(v, dict) else v
                if v["k"] == "unset":
                    continue
                n = f["name"]
                out.append((ty, [{"op": "new", "kw": [[n, v]]}, {"op": "observe"}]))
                out.append((ty, [{"op": "new", "kw": []}, {"op": "set", "f": n, "v": v}, {"op": "bytes"}]))
                if not (v["k"] == "msg" and v.get("fresh")):
                    val = gen.fresh(schema, ty)
                    val[n] = {k: x for k, x in v.items() if k != "fresh"}
                    out.append((ty, [{"op": "new", "kw": []}, {"op": "parse", "src": val}, {"op": "observe"}]))
                    out.append((ty, [{"op": "fromdict_cls", "kw": [[n, v]]}, {"op": "observe"}]))
                    out.append((ty, [{"op": "new", "kw": []}, {"op": "fromdict_inst", "kw": [[n, v]]}, {"op": "observe"}]))
    return out


def run(ctx):
    quick = ctx.tier == "quick"
    from .. import mo
    mo.model_check(ctx, ['FreshIsEmpty', 'ImplicitDefaultSkipped', 'ExplicitPresenceEmitted', 'SubmessageEmittedIffSow'], [], quick)
    # the same statement with the bare presence flag instead of what serialized_on_wire() reports must FAIL in the model (a
    # sub-message filled only in place): the model does contain the situation that was the defect repaired in 70e0ad2
    neg = ctx.mc("MessageObj", mo.cfg([], ["SubmessageEmittedIffRawFlag"], 4), name="MessageObj_rawflag_neg", allow_violation=True, coverage=False)
    if not neg.violated:
        raise MachineryError("negative control: SubmessageEmittedIffRawFlag should be violated (by AAppendIn) in spec/MessageObj.tla")
    ctx.notes["negative_control"] = "SubmessageEmittedIffRawFlag (bare _serialized_on_wire) is violated in the model by an in-place append, as expected"
    mo.replay(ctx, 160 if quick else 4000)
    ctx.rule = ("matrix: every field of the Wide family x {never set, type default, non-default, fresh empty sub-message} x {constructor, "
                "attribute assignment, parse, from_dict class/instance form} alone, plus random histories (combinations); after every call: "
                "observed values/presence, the encoding (spec-decoded; no implicit default and no absent field emitted), and the reference's "
                "HasField/WhichOneof on the same bytes must equal the abstract state; non-trivial = a field was set or parsed")
    schema = msgev.world()["schema"]
    mx = matrix(schema)
    if quick:
        mx = [c for k, c in enumerate(mx) if k % 2 == 0]
    hist.run_histories(ctx, ["TMix", "TOpt", "TWkt", "TOne", "TOneP", "TScal", "TImpl"], 400 if quick else 10000, 8, "presence", withref=True, extra=mx)


def redrive(ev):
    if "ops" in ev.get("case", {}):
        return hist.history_event((ev["case"]["ty"], ev["case"]["ops"], True))
    return None
