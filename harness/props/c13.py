"""C13 Cross-package type references in generated code resolve to the right class."""
import itertools

from .. import protoc
from ..common import MachineryError
from . import c03

LEVEL = "translation_validation"

MC_CFG = """SPECIFICATION Spec
CONSTANTS
  Atoms = {"a", "b", "a_b"}
  MaxDepth = %d
  UnderscoreAtoms = {"a_b"}
INVARIANT ResolvesToTarget
INVARIANT %s
CHECK_DEADLOCK FALSE
"""


def paths(atoms, depth):
    out = [[]]
    for n in range(1, depth + 1):
        out += [list(t) for t in itertools.product(atoms, repeat=n)]
    return out


def fname(pkg, tier):
    p = ".".join(pkg)
    return (p.replace(".", "/") + "/" if p else "") + "f_%s_%d.proto" % (p.replace(".", "_") or "root", tier)


def pair_program(cur, tgt, sites, circular=False, named=False):
    """package tgt defines T (nested N, enum K) and enum E; package cur refers to them from the given sites.
    tier-0 file of tgt holds the targets, tier-1 file of cur holds the referrers (so cur == tgt and circular shapes work)."""
    tp, cp = ".".join(tgt), ".".join(cur)
    q = ("." + tp + ".") if tp else "."
    tfile = 'syntax = "proto3";\n' + ("package %s;\n" % tp if tp else "")
    tfile += "enum E { E_ZERO = 0; E_ONE = 1; }\nmessage T { message N { int32 v = 1; } enum K { K_ZERO = 0; K_TWO = 2; } int32 id = 1; N n = 2; K k = 3; }\n"
    protos = {fname(tgt, 0): tfile}
    kinds = {"msg": q + "T", "nested": q + "T.N", "enum": q + "E", "nestedenum": q + "T.K"}
    body = ""
    num = 1
    for site, kind in sites:
        if site in ("rpc_in", "rpc_out"):
            continue
        t = kinds[kind]
        if site == "field":
            # named: the field is called like the package (atom) its type lives in -- the name the generated module binds for the import
            nm = tgt[-1] if named and tgt and ("  %s %s = " % (t, tgt[-1])) not in body and (" %s = " % tgt[-1]) not in body else "f%d" % num
            body += "  %s %s = %d;\n" % (t, nm, num)
        elif site == "repeated":
            body += "  repeated %s f%d = %d;\n" % (t, num, num)
        elif site == "map":
            body += "  map<string, %s> f%d = %d;\n" % (t, num, num)
        elif site == "oneof":
            body += "  oneof g%d { %s f%d = %d; string alt%d = %d; }\n" % (num, t, num, num, num, num + 1)
            num += 1
        num += 1
    cfile = 'syntax = "proto3";\n' + ("package %s;\n" % cp if cp else "") + 'import "%s";\n' % fname(tgt, 0)
    cfile += "message R {\n" + body + "  int32 own = 100;\n}\nmessage Own { string s = 1; }\n"
    rpcs = [(s, k) for s, k in sites if s in ("rpc_in", "rpc_out")]
    if rpcs:
        cfile += "service Svc {\n"
        for j, (s, k) in enumerate(rpcs):
            t = kinds["msg" if k in ("enum", "nestedenum", "msg") else "nested"]
            if s == "rpc_in":
                cfile += "  rpc In%d (%s) returns (Own);\n" % (j, t)
            else:
                cfile += "  rpc Out%d (Own) returns (%s%s);\n" % (j, "stream " if j % 2 else "", t)
        cfile += "}\n"
    protos[fname(cur, 1)] = cfile
    if circular and cur != tgt:
        # the target package also refers back to the referring package (through its own tier-1 file)
        back = 'syntax = "proto3";\n' + ("package %s;\n" % tp if tp else "") + 'import "%s";\n' % fname(cur, 0)
        cq = ("." + cp + ".") if cp else "."
        back += "message Back { %sC0 c = 1; repeated %sC0 cs = 2; }\n" % (cq, cq)
        protos[fname(tgt, 1)] = back
        protos[fname(cur, 0)] = 'syntax = "proto3";\n' + ("package %s;\n" % cp if cp else "") + "message C0 { int32 z = 1; }\n"
    return protos


PREFIX_PAIRS = [(["a"], ["ab"]), (["ab"], ["a"]), (["a", "b"], ["a", "bc"]), (["a", "bc"], ["a", "b"]), (["a"], ["ab", "c"]), (["ab", "c"], ["a"]),
                (["a", "b"], ["ab"]), (["ab"], ["a", "b"]), (["a", "b"], ["a", "bc", "d"]), (["a", "bc", "d"], ["a", "b"]), (["x", "a"], ["x", "ab"]),
                (["x", "ab"], ["x", "a"]), (["a"], ["a1"]), (["a1"], ["a"]), (["a", "v1"], ["a", "v1beta1"]), (["a", "v1beta1"], ["a", "v1"])]
KNOWN_COLLISION_SHAPES = ()
SITES = ["field", "repeated", "map", "oneof", "rpc_in", "rpc_out"]
KINDS = ["msg", "nested", "enum", "nestedenum"]


def ref_event(args):
    from betterproto.compile.importing import get_type_reference
    from betterproto.plugin.typing_compiler import DirectImportTypingCompiler
    cur, tgt = args
    imports = set()
    ev = {"cur": cur, "tgt": tgt, "ref": "", "imports": [], "res": "ok", "case": {"cur": cur, "tgt": tgt}}
    try:
        r = get_type_reference(package=".".join(cur), imports=imports, source_type="." + ".".join(tgt + ["T1"]),
                               typing_compiler=DirectImportTypingCompiler())
        ev["ref"] = r.strip('"')
        ev["imports"] = sorted(imports)
    except Exception as ex:
        ev["res"] = type(ex).__name__
    return ev


def run(ctx):
    quick = ctx.tier == "quick"
    ctx.rule = ("programs: for every ordered pair (referring package, referenced package) of paths of depth 0..%s over {a, b} - same package, "
                "ancestor, descendant, sibling, cousin, root - one program whose message R and service refer from every site {field, repeated, "
                "map value, oneof, rpc input, rpc output} to every kind {message, nested message, enum, nested enum} at once, isolated "
                "single-site programs, and mutually dependent package pairs; compiled, imported, type hints and handler types resolved and "
                "compared (Trace_Plugin) with the class generated for the target; non-trivial = the two packages differ") % ("2" if quick else "3")
    ctx.assumptions = ["as C03; the alias construction of compile/importing.py is modelled in spec/Importing.tla and bound by Trace_Importing"]
    # (1) the design: every reference alone resolves; aliases are injective outside the recorded input class
    ctx.mc("Importing", MC_CFG % (2 if quick else 3, "AliasesInjectiveExceptKnown"), name="Importing", coverage=False)
    r = ctx.mc("Importing", MC_CFG % (2, "AliasesInjective"), name="Importing_negative_control", coverage=False, allow_violation=True)
    if r.violated != "AliasesInjective":
        raise MachineryError("negative control: the unguarded AliasesInjective no longer fails on the a_b / a.b collision")
    ctx.mc_runs[-1]["note"] = "negative control: the recorded alias collision (KF_C13_AliasCollision) is found by TLC"
    # (2) the model is what the code does: all ordered pairs through the real get_type_reference
    ps = paths(["a", "b", "a_b"], 3)
    pairs = [(c, t) for c in ps for t in ps]
    ev0 = ctx.pmap(ref_event, pairs)
    ctx.validate("Trace_Importing", ev0, shard=400, cfg_text="SPECIFICATION TraceSpec\nCONSTANTS\n  Atoms = {\"a\"}\n  MaxDepth = 1\n  UnderscoreAtoms = {}\nCHECK_DEADLOCK FALSE\n")
    drift = [c for cl, c in ctx.violations if cl.endswith("_differs_from_model") or cl == "more_than_one_import"]
    drift_pairs = []
    if drift:
        drift_pairs = [(d["case"]["cur"], d["case"]["tgt"]) for d in drift]
        ctx.violations = [(cl, c) for cl, c in ctx.violations if c not in drift]
        ctx.notes["model_drift_cases"] = len(drift)
        ctx.notes["model_drift_samples"] = [d["case"] for d in drift[:3]]
        print("NOTE: compile/importing.py deviates from spec/Importing.tla on %d package pairs (model drift; resolution is still decided on generated code)" % len(drift))
    # (3) generated code
    protoc._tools(ctx.work)
    ps2 = paths(["a", "b"], 2 if quick else 3)
    cases = []
    k = 0
    allsites = [(s, kd) for s in SITES for kd in KINDS]
    for cur in ps2:
        for tgt in ps2:
            cases.append((ctx.work, "p%d" % k, pair_program(cur, tgt, allsites), ()))
            k += 1
    rnd = ctx.rnd
    iso_pairs = [(c, t) for c in ps2 for t in ps2 if c != t]
    rnd.shuffle(iso_pairs)
    for cur, tgt in iso_pairs[: (18 if quick else 200)]:
        for s in SITES:
            cases.append((ctx.work, "i%d" % k, pair_program(cur, tgt, [(s, rnd.choice(KINDS))]), ()))
            k += 1
    for cur, tgt in iso_pairs[: (12 if quick else 120)]:
        cases.append((ctx.work, "c%d" % k, pair_program(cur, tgt, [(rnd.choice(SITES[:4]), kd) for kd in KINDS], circular=True), ()))
        k += 1
    # package names that are string prefixes of one another without being related (a / ab, a.b / a.bc), in both directions
    for cur, tgt in PREFIX_PAIRS:
        cases.append((ctx.work, "x%d" % k, pair_program(cur, tgt, allsites), ()))
        k += 1
    # fields called like the package atom their type lives in (what the generated module binds for the import)
    for cur, tgt in [(c, t) for c in ps2 for t in ps2 if t and c != t][: (20 if quick else 200)]:
        cases.append((ctx.work, "n%d" % k, pair_program(cur, tgt, [("field", "msg"), ("field", "enum"), ("map", "nested"), ("oneof", "msg")], named=True), ()))
        k += 1
    # where compile/importing.py deviates from the model (drift), the pairs are decided on generated code as well
    rnd.shuffle(drift_pairs)
    for cur, tgt in drift_pairs[:40]:
        if any(a == "a_b" for a in cur + tgt) and (cur, tgt) in KNOWN_COLLISION_SHAPES:
            continue
        cases.append((ctx.work, "d%d" % k, pair_program(cur, tgt, allsites), ()))
        k += 1
    ctx.notes["drift_directed_programs"] = min(40, len(drift_pairs))
    # like-named types of two packages, both used as map values / fields / list items (whatever is remembered per name must not mix them up)
    cases.append((ctx.work, "likenamed", {
        "p/v1/a.proto": 'syntax = "proto3";\npackage p.v1;\nmessage Item { string a = 1; }\nenum Kind { KIND_ZERO = 0; KIND_ONE = 1; }\n'
                        "message Order { map<string, Item> items = 1; Item one = 2; repeated Item many = 3; map<int32, Kind> kinds = 4; }\n",
        "p/v2/a.proto": 'syntax = "proto3";\npackage p.v2;\nmessage Item { int64 b = 1; bytes c = 2; }\nenum Kind { KIND_ZERO = 0; KIND_TWO = 2; }\n'
                        "message Order { map<string, Item> items = 1; Item one = 2; repeated Item many = 3; map<int32, Kind> kinds = 4; }\n",
        "p/both.proto": 'syntax = "proto3";\npackage p;\nimport "p/v1/a.proto";\nimport "p/v2/a.proto";\n'
                        "message Both { p.v1.Order o1 = 1; p.v2.Order o2 = 2; map<string, p.v1.Item> m1 = 3; map<string, p.v2.Item> m2 = 4; "
                        "oneof g { p.v1.Item i1 = 5; p.v2.Item i2 = 6; } }\n"}, ()))
    # one module referring to two packages with the same last name at different depths (a root-level cousin and a sibling)
    cases.append((ctx.work, "sameleaf", {
        "p/p.proto": 'syntax = "proto3";\npackage p;\nmessage Item { int32 n = 1; message Inner { int32 k = 1; } }\nenum Kind { KIND_ZERO = 0; KIND_FAR = 1; }\n',
        "a/p/p.proto": 'syntax = "proto3";\npackage a.p;\nmessage Item { string s = 1; message Inner { string t = 1; } }\nenum Kind { KIND_ZERO = 0; KIND_NEAR = 2; }\n',
        "a/x/x.proto": 'syntax = "proto3";\npackage a.x;\nimport "p/p.proto";\nimport "a/p/p.proto";\n'
                       "message Box { .p.Item far = 1; .a.p.Item near = 2; repeated .p.Item far_list = 3; repeated .a.p.Item near_list = 4; map<string, .p.Item> far_map = 5; "
                       "map<string, .a.p.Item> near_map = 6; oneof pick { .p.Item.Inner far_inner = 7; .a.p.Item.Inner near_inner = 8; } .p.Kind far_kind = 9; .a.p.Kind near_kind = 10; }\n",
        "a/x/y/y.proto": 'syntax = "proto3";\npackage a.x.y;\nimport "p/p.proto";\nimport "a/p/p.proto";\nmessage Deep { .p.Item far = 1; .a.p.Item near = 2; map<int32, .a.p.Kind> kinds = 3; repeated .p.Kind far_kinds = 4; }\n'}, ()))
    # nested types whose names are lower-case or runs of capitals (the flattened class name and the reference must agree)
    cases.append((ctx.work, "nestednames", {
        "n/shapes.proto": 'syntax = "proto3";\npackage n;\nmessage Shape { message point { int32 x = 1; } enum kind { kind_zero = 0; kind_one = 1; } point p = 1; kind k = 2; }\n'
                          "message ABC { message DEF { int32 v = 1; } DEF d = 1; }\nmessage FooX { message Y { message z_w { int32 v = 1; } z_w zw = 1; } Y y = 1; }\n"
                          "message UserID { message IP { int32 v = 1; } IP ip = 1; }\n",
        "n/m/user.proto": 'syntax = "proto3";\npackage n.m;\nimport "n/shapes.proto";\n'
                          "message User { n.Shape.point sp = 1; n.ABC.DEF ad = 2; n.FooX.Y fy = 3; map<string, n.Shape.point> mp = 4; repeated n.FooX.Y.z_w zs = 5; "
                          "n.Shape.kind k = 6; n.UserID.IP ip = 7; }\nservice S { rpc Get (n.Shape.point) returns (stream n.ABC.DEF); }\n"}, ()))
    # well-known types and the recorded collision / capitalised-package inputs
    cases.append((ctx.work, "wkt", {"w.proto": 'syntax = "proto3";\npackage w.x;\nimport "google/protobuf/empty.proto";\nimport "google/protobuf/any.proto";\n'
                                     'import "google/protobuf/struct.proto";\nimport "google/protobuf/field_mask.proto";\nimport "google/protobuf/timestamp.proto";\nimport "google/protobuf/duration.proto";\nimport "google/protobuf/wrappers.proto";\n'
                                     "message W { google.protobuf.Empty e = 1; repeated google.protobuf.Any anys = 2; google.protobuf.Struct s = 3; "
                                     "google.protobuf.FieldMask fm = 4; map<string, google.protobuf.Value> vs = 5; }\n"
                                     "service S { rpc Ping (google.protobuf.Empty) returns (google.protobuf.Empty); rpc Now (google.protobuf.Empty) returns (google.protobuf.Timestamp); "
                                     "rpc Wait (google.protobuf.Duration) returns (stream google.protobuf.Timestamp); rpc Wrap (google.protobuf.Int32Value) returns (google.protobuf.StringValue); }\n"}, ()))
    cases.append((ctx.work, "collide", {"x0.proto": 'syntax = "proto3";\npackage x;\nimport "x/a/b/t1.proto";\nimport "x/a_b/t2.proto";\n'
                                        "message Top { x.a.b.T1 p = 1; x.a_b.T2 q = 2; }\n",
                                        "x/a/b/t1.proto": 'syntax = "proto3";\npackage x.a.b;\nmessage T1 { int32 v = 1; }\n',
                                        "x/a_b/t2.proto": 'syntax = "proto3";\npackage x.a_b;\nmessage T2 { int32 v = 1; }\n'}, ()))
    events = ctx.pmap(c03.compile_case, cases, chunk=2)
    for c, e in zip(cases, events):
        e["case"]["name"] = c[1]
        ctx.count_case(repr(sorted(c[2].items())), len(c[2]) > 1)
        e.pop("stubs", None)
    ctx.sample({"program": cases[7][2]})
    ctx.notes["programs"] = len(cases)
    ctx.notes["disagreements_checked"] = len(cases)
    events, = protoc.drop_rejected(ctx, events)
    ctx.validate("Trace_Plugin", events, shard=30, header=c03.plugin_header(events))
