"""C01 Binary round trip: parse(bytes(m)) reproduces m for every message value."""
from .. import gen, msgev

LEVEL = "model_checking"


def cases(ctx, quick):
    w = msgev.world()
    schema = w["schema"]
    cs = msgev.boundary_cases(schema)
    for ty in ("TMix", "TOne", "TOpt", "TWkt"):
        cs += msgev.pair_cases(schema, ty, ctx.rnd, 60 if quick else 600)
    cs += msgev.random_cases(schema, ctx.rnd, 6000 if quick else 100000)
    return cs


def run(ctx):
    quick = ctx.tier == "quick"
    ctx.rule = ("messages of the Wide schema family (15 scalar kinds + enum x implicit/optional/repeated/oneof/map value, maps over "
                "every key kind, wrappers, Timestamp/Duration, nested and recursive messages): every field x its boundary value domain x "
                "presence mode alone, pairwise combinations, seeded random full-range values; non-trivial = differs from the fresh "
                "message; distinct by (type, value)")
    ctx.assumptions = ["abstract value -> constructor kwargs and the public observation reader (harness/dyn.py) are transport only",
                       "classes are built with the public field API (dataclasses.make_dataclass + betterproto.*_field); plugin-generated "
                       "classes are covered by C03"]
    # the spec's own theorem on the boundary family: SpecDecode(SpecEncode(m)) = Norm(m), any field order
    from . import c02
    pool = [c for c in msgev.boundary_cases(msgev.world()["schema"]) if quick is False or hash(repr(c["val"])) % 3 == 0]
    c02.run_legalenc(ctx, msgev.world()["schema"], pool, (0, 0, 0, 6, 0), False, invariants=("DecoderInsensitive", "CanonicalRoundTrip"))
    cs = cases(ctx, quick)
    # the same boundary family on the classes the real plugin generates for this schema (its field metadata takes part)
    msgev.gen_world()
    cs += msgev.as_generated([c for k, c in enumerate(msgev.boundary_cases(msgev.world()["schema"])) if not quick or k % 2 == 0])
    for c in cs:
        ctx.count_case((c["ty"], repr(c["val"])), msgev.nontrivial(c))
    events = ctx.pmap(msgev.rt_event, cs)
    ctx.sample({"case": cs[40], "event_bytes": events[40]["b"]})
    ctx.sample({"case": cs[-1]["ty"], "value": cs[-1]["val"], "bytes": events[-1]["b"]})
    ctx.validate("Trace_Codec", events, header={"schema": msgev.world()["schema"]}, shard=1500, weight=lambda e: 1 + len(e["b"]) // 40)
    # values reached through histories (assignments, in-place changes of containers and sub-messages, parses, copies; bytes()
    # called in between): after every call the bytes must spec-decode to the value the object then has
    from .. import hist
    hist.run_histories(ctx, ["TScal", "TScal", "TRep", "TMapV", "TMapK", "TMix", "TOne", "TOpt", "TImpl", "Node"], 400 if quick else 12000, 9, "inplace")
    ctx.notes["cases_by_type"] = {t: sum(1 for c in cs if c["ty"] == t) for t in msgev.world()["schema"]["types"]}


def redrive(ev):
    if ev.get("case", {}).get("world") == "gen":
        msgev.gen_world()
    return msgev.rt_event({"ty": ev["ty"], "val": ev["val"], "tag": ev.get("case", {}).get("tag", ""), "world": ev.get("case", {}).get("world", "dyn")})
