"""C19 Name mapping is total and safe, and JSON keys map back to their fields."""
import builtins
import dataclasses
import itertools
import keyword

import betterproto
from betterproto.compile import naming

from .. import absval as av

LEVEL = "exploration"
ALPHA = "abAB01_"
CORPUS = ["address_line_1", "ipv4_address", "x_y_z", "HTTPStatus", "userID", "user_id", "URL", "url2", "a", "_", "__", "_private", "trailing_",
          "double__underscore", "camelCase", "PascalCase", "SCREAMING_CASE", "mixed_Case_Name", "v1beta", "sha256sum", "peerIDs", "foo_1_bar",
          "x1", "i18n", "utf8_string", "is_2fa_enabled", "float", "self", "cls", "type", "id", "match", "case", "_1", "_1x", "a_b", "A_B", "aB_c"]


def name_event(x):
    ev = {"x": av.cps(x), "res": "ok", "field": [], "field2": [], "method": [], "method2": [], "class": [], "class2": [], "enum_member": [],
          "back_orig": True, "back_snake": True, "back_camel": True, "keys": [], "case": {"x": x}}
    try:
        f = naming.pythonize_field_name(x)
        ev["field"], ev["field2"] = av.cps(f), av.cps(naming.pythonize_field_name(f))
        m = naming.pythonize_method_name(x)
        ev["method"], ev["method2"] = av.cps(m), av.cps(naming.pythonize_method_name(m))
        c = naming.pythonize_class_name(x)
        ev["class"], ev["class2"] = av.cps(c), av.cps(naming.pythonize_class_name(c))
        ev["enum_member"] = av.cps(naming.pythonize_enum_member_name(x, "Enum"))
        if f.isidentifier() and not keyword.iskeyword(f):
            C = dataclasses.make_dataclass("M", [(f, str, betterproto.string_field(1))], bases=(betterproto.Message,), eq=False, repr=False)
            msg = C(**{f: "v"})
            ks = list(msg.to_dict(casing=betterproto.Casing.SNAKE))
            kc = list(msg.to_dict(casing=betterproto.Casing.CAMEL))
            ev["keys"] = [av.cps(k) for k in ks + kc]
            ev["back_snake"] = len(ks) == 1 and getattr(C().from_dict({ks[0]: "v"}), f) == "v"
            ev["back_camel"] = len(kc) == 1 and getattr(C().from_dict({kc[0]: "v"}), f) == "v"
            ev["back_orig"] = getattr(C().from_dict({x: "v"}), f) == "v"
    except Exception as ex:
        ev["res"] = type(ex).__name__ + ":" + str(ex)[:60]
    return ev


def idents(n):
    for k in range(1, n + 1):
        for t in itertools.product(ALPHA, repeat=k):
            if t[0] in "01":
                continue
            yield "".join(t)


def run(ctx):
    quick = ctx.tier == "quick"
    n = 4 if quick else 6
    ctx.rule = ("every proto identifier of length <= %d over {a,b,A,B,0,1,_} (exhaustive%s), every Python keyword / soft keyword / builtin and their "
                "capitalised / upper-cased forms, and a corpus of real-world names: field / method / class / enum-member name must be a safe "
                "identifier, the mappings idempotent, and a one-field message's to_dict key (both casings) and the proto name must map back "
                "through from_dict; non-trivial = name is not already lower-case alphabetic; distinct by identifier") % (n, ", longer ones sampled" if quick else "")
    ctx.assumptions = ["keyword.kwlist of the running Python is the set of reserved words (passed to the spec as data); soft keywords (match, case, type, _) are legal identifiers and only used as inputs",
                       "ASCII identifiers only (protoc accepts nothing else)"]
    xs = list(idents(n))
    if quick:
        allsix = list(idents(6))
        xs += ctx.rnd.sample(allsix, 4000)
    kws = list(keyword.kwlist) + list(getattr(keyword, "softkwlist", []))
    words = kws + [b for b in dir(builtins) if b.isidentifier()]
    xs += words + [w.capitalize() for w in words] + [w.upper() for w in words] + CORPUS
    xs = sorted(set(x for x in xs if x and (x[0].isalpha() or x[0] == "_") and all(c.isalnum() or c == "_" for c in x) and x.isascii()))
    ctx.exhaustive = not quick
    events = ctx.pmap(name_event, xs)
    for x in xs:
        ctx.count_case(x, not (x.isalpha() and x.islower()))
    ctx.sample({"identifier": "address_line_1", "event": {k: (av.uncps(v) if isinstance(v, list) and v and isinstance(v[0], int) else v)
                                                            for k, v in name_event("address_line_1").items() if k not in ("case", "keys")}})
    ctx.validate("Trace_Naming", events, header={"keywords": [av.cps(k) for k in keyword.kwlist]}, shard=8000)
    ctx.notes["identifiers"] = len(xs)
    ctx.notes["explanation"] = "exhaustive enumeration of the bounded identifier space; criteria evaluated by TLC on spec/Naming.tla"


def redrive(ev):
    return name_event(ev["case"]["x"])
