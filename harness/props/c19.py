"""C19 Name mapping is total and safe, and JSON keys map back to their fields."""
import builtins
import dataclasses
import itertools
import keyword

import betterproto
from betterproto.compile import naming

from .. import absval as av
from ..common import MachineryError

MC_INVS = ["NamesAreSafe", "EnumMembersAreSafe", "FieldNameIdempotent", "ClassNameIdempotentOutsideFinding", "ProtoNameMapsBack",
           "SnakeKeyMapsBack", "CamelKeyMapsBackOutsideFinding", "KeysNonEmpty", "TokensCoverInput"]

LEVEL = "model_checking"
ALPHA = "abAB01_"
CORPUS = ["address_line_1", "ipv4_address", "x_y_z", "HTTPStatus", "userID", "user_id", "URL", "url2", "a", "_", "__", "_private", "trailing_",
          "double__underscore", "camelCase", "PascalCase", "SCREAMING_CASE", "mixed_Case_Name", "v1beta", "sha256sum", "peerIDs", "foo_1_bar",
          "x1", "i18n", "utf8_string", "is_2fa_enabled", "float", "self", "cls", "type", "id", "match", "case", "_1", "_1x", "a_b", "A_B", "aB_c"]


MESSAGE_ATTRS = sorted(n for n in dir(betterproto.Message) if not n.startswith("_"))


def name_event(x):
    ev = {"x": av.cps(x), "res": "ok", "field": [], "field2": [], "method": [], "method2": [], "class": [], "class2": [], "enum_member": [],
          "back_orig": True, "back_snake": True, "back_camel": True, "keys": [], "ksnake": [-1], "kcamel": [-1], "case": {"x": x}}
    try:
        f = naming.pythonize_field_name(x)
        ev["field"], ev["field2"] = av.cps(f), av.cps(naming.pythonize_field_name(f))
        m = naming.pythonize_method_name(x)
        ev["method"], ev["method2"] = av.cps(m), av.cps(naming.pythonize_method_name(m))
        c = naming.pythonize_class_name(x)
        ev["class"], ev["class2"] = av.cps(c), av.cps(naming.pythonize_class_name(c))
        ev["enum_member"] = av.cps(naming.pythonize_enum_member_name(x, "Enum"))
        if f.isidentifier() and not keyword.iskeyword(f):
            C = dataclasses.make_dataclass("M", [(f, str, betterproto.string_field(1))], bases=(betterproto.Message,), eq=False, repr=False)
            msg = C(**{f: "v"})
            ks = list(msg.to_dict(casing=betterproto.Casing.SNAKE))
            kc = list(msg.to_dict(casing=betterproto.Casing.CAMEL))
            # another message class, which has no such field, sees the same keys first (it ignores them): what is remembered
            # about a key must be remembered per class
            Decoy = dataclasses.make_dataclass("M", [("zz_decoy", str, betterproto.string_field(1))], bases=(betterproto.Message,), eq=False, repr=False)
            Decoy().from_dict({k: "v" for k in ks + kc + [x]})
            Decoy.from_dict({k: "v" for k in ks + kc + [x]})
            ev["keys"] = [av.cps(k) for k in ks + kc]
            if len(ks) == 1 and len(kc) == 1:
                ev["ksnake"], ev["kcamel"] = av.cps(ks[0]), av.cps(kc[0])
            ev["back_snake"] = len(ks) == 1 and getattr(C().from_dict({ks[0]: "v"}), f) == "v"
            ev["back_camel"] = len(kc) == 1 and getattr(C().from_dict({kc[0]: "v"}), f) == "v"
            ev["back_orig"] = getattr(C().from_dict({x: "v"}), f) == "v"
            # the same field as a member of a oneof, read into an object in which another member is selected: the name (whatever
            # it looks like, a leading underscore included) is a field like any other
            if f != "zz_other":
                C2 = dataclasses.make_dataclass("M", [("zz_other", str, betterproto.string_field(1, group="g")), (f, str, betterproto.string_field(2, group="g"))],
                                                bases=(betterproto.Message,), eq=False, repr=False)
                m2 = C2(zz_other="o")
                m2.from_dict({x: "v"})
                sel = betterproto.which_one_of(m2, "g")[0] == f and list(m2.to_dict(casing=betterproto.Casing.SNAKE)) == ks
                m2 = C2(zz_other="o")
                setattr(m2, f, "v")
                ev["back_orig"] = ev["back_orig"] and sel and betterproto.which_one_of(m2, "g")[0] == f and bytes(m2) == b"\x12\x01v"
    except Exception as ex:
        ev["res"] = type(ex).__name__ + ":" + str(ex)[:60]
    return ev


def idents(n):
    for k in range(1, n + 1):
        for t in itertools.product(ALPHA, repeat=k):
            if t[0] in "01":
                continue
            yield "".join(t)


def run(ctx):
    quick = ctx.tier == "quick"
    n = 4 if quick else 6
    ctx.rule = ("every proto identifier of length <= %d over {a,b,A,B,0,1,_} (exhaustive%s), every Python keyword / soft keyword / builtin and their "
                "capitalised / upper-cased forms, and a corpus of real-world names: field / method / class / enum-member name must be a safe "
                "identifier, the mappings idempotent, and a one-field message's to_dict key (both casings) and the proto name must map back "
                "through from_dict; non-trivial = name is not already lower-case alphabetic; distinct by identifier") % (n, ", longer ones sampled" if quick else "")
    ctx.assumptions = ["keyword.kwlist of the running Python is the set of reserved words (passed to the spec as data); soft keywords (match, case, type, _) are legal identifiers and only used as inputs",
                       "ASCII identifiers only (protoc accepts nothing else)"]
    # (1) the design: C19 model-checked on the faithful casing model for every identifier up to a length bound
    cfg = ("SPECIFICATION Spec\nCONSTANTS\n  Alpha = {97, 115, 105, 65, 83, 49, 95}\n  MaxLen = %d\n" % (6 if quick else 7) +
           "".join("INVARIANT %s\n" % i for i in MC_INVS) + "CHECK_DEADLOCK FALSE\n")
    ctx.mc("MC_Casing", cfg, name="MC_Casing", expect_actions=("Grow",), timeout=3000)
    # negative control: without the recorded finding the camelCase theorem must fail on the model (the invariants are not vacuous)
    r = ctx.mc("MC_Casing", "SPECIFICATION Spec\nCONSTANTS\n  Alpha = {97, 49, 95}\n  MaxLen = 4\nINVARIANT CamelKeyAlwaysMapsBack\nCHECK_DEADLOCK FALSE\n",
               name="MC_Casing_neg", allow_violation=True, coverage=False)
    if r.violated != "CamelKeyAlwaysMapsBack":
        raise MachineryError("negative control: MC_Casing no longer finds the camelCase key that loses a word boundary")
    xs = list(idents(n))
    if quick:
        allsix = list(idents(6))
        xs += ctx.rnd.sample(allsix, 4000)
    kws = list(keyword.kwlist) + list(getattr(keyword, "softkwlist", []))
    words = kws + [b for b in dir(builtins) if b.isidentifier()]
    xs += words + [w.capitalize() for w in words] + [w.upper() for w in words] + CORPUS
    xs += MESSAGE_ATTRS        # proto fields named like the public methods of betterproto.Message
    xs = sorted(set(x for x in xs if x and (x[0].isalpha() or x[0] == "_") and all(c.isalnum() or c == "_" for c in x) and x.isascii()))
    ctx.exhaustive = not quick
    events = ctx.pmap(name_event, xs)
    for x in xs:
        ctx.count_case(x, not (x.isalpha() and x.islower()))
    ctx.sample({"identifier": "address_line_1", "event": {k: (av.uncps(v) if isinstance(v, list) and v and isinstance(v[0], int) else v)
                                                            for k, v in name_event("address_line_1").items() if k not in ("case", "keys")}})
    ctx.validate("Trace_Naming", events, header={"keywords": [av.cps(k) for k in keyword.kwlist], "enum_name": av.cps("Enum"), "message_attrs": [av.cps(k) for k in MESSAGE_ATTRS]}, shard=8000)
    drift = sorted(set((i, tuple(d)) for i, d in ctx.drift.get("Trace_Naming", [])))
    byid = {e["id"]: e for e in events}
    ctx.notes["model_drift_cases"] = len(drift)
    ctx.notes["model_drift_samples"] = [{"identifier": byid[i]["case"]["x"], "differs": d} for i, d in drift[:5]] if drift else []
    if drift:
        print("NOTE: on %d of %d identifiers the code's names differ from spec/Casing.tla (model drift; criteria are decided on the real outputs)" % (len(drift), len(xs)))
    ctx.notes["identifiers"] = len(xs)
    ctx.assumptions.append("spec/Casing.tla is a faithful model of the present casing algorithm: the theorems are model-checked on it and the code is compared with it on every identifier (model_drift_cases); the verdicts themselves use only the postconditions of spec/Naming.tla")
    ctx.notes["explanation"] = "TLC model-checks the C19 theorems on spec/Casing.tla over the bounded identifier space; the code is run on the same space (and beyond) and its outputs judged by TLC against spec/Naming.tla"


def redrive(ev):
    return name_event(ev["case"]["x"])
