"""C05 JSON output and input follow the canonical proto3 JSON mapping."""
from .. import dyn, gen, jsontree, msgev
from ..common import MachineryError

LEVEL = "model_checking"


def ref_enum_json_fix(schema):
    pass


def json_event(case):
    from google.protobuf import json_format
    w = msgev.world()
    schema, C, R = w["schema"], msgev.classes_for(case), msgev.ref_classes()
    ty, val = case["ty"], case["val"]
    ev = {"op": "json", "ty": ty, "val": val, "res": "ok", "valid_json": True, "tree": {"t": "obj", "kv": []}, "ref_res": "ok", "ref_obs": val,
          "ref_tree": {"t": "obj", "kv": []}, "bp_res2": "ok", "bp_obs2": val, "text": "", "ref_text": "", "case": {"ty": ty, "tag": case.get("tag", ""), "world": case.get("world", "dyn")}}
    try:
        m = dyn.conc_bp(schema, C, ty, val)
        text = m.to_json()
        ev["text"] = text[:300]
        ev["valid_json"], ev["tree"] = jsontree.from_text(text)
    except Exception as ex:
        ev["res"] = type(ex).__name__ + ":" + str(ex)[:60]
        return ev
    try:
        r = R[ty]()
        json_format.Parse(text, r)
        ev["ref_obs"] = dyn.obs_ref(schema, r, ty)
    except Exception as ex:
        ev["ref_res"] = type(ex).__name__ + ":" + str(ex)[:80]
    rm = dyn.fill_ref(schema, R, ty, val)
    rtext = json_format.MessageToJson(rm)
    ev["ref_text"] = rtext[:300]
    _, ev["ref_tree"] = jsontree.from_text(rtext)
    try:
        ev["bp_obs2"] = dyn.obs_bp(schema, C[ty]().from_json(rtext), ty)
    except Exception as ex:
        ev["bp_res2"] = type(ex).__name__ + ":" + str(ex)[:60]
    # the other texts the reference emits for the same message (its printer options): proto field names as keys, enums as
    # numbers, fields without presence printed at their defaults -- each must be read as the same message
    ev["variants"] = []
    for name, kw in REF_PRINTER_VARIANTS:
        v = {"name": name, "tree": {"t": "obj", "kv": []}, "res": "ok", "obs": val}
        try:
            vtext = json_format.MessageToJson(rm, **kw)
            _, v["tree"] = jsontree.from_text(vtext)
            v["obs"] = dyn.obs_bp(schema, C[ty]().from_json(vtext), ty)
        except Exception as ex:
            v["res"] = type(ex).__name__ + ":" + str(ex)[:60]
        ev["variants"].append(v)
    return ev


REF_PRINTER_VARIANTS = [("proto_names", {"preserving_proto_field_name": True}), ("enum_numbers", {"use_integers_for_enums": True}),
                        ("defaults_printed", {"always_print_fields_with_no_presence": True}),
                        ("all", {"preserving_proto_field_name": True, "use_integers_for_enums": True, "always_print_fields_with_no_presence": True})]


def cases(ctx, quick):
    w = msgev.world()
    schema = w["schema"]
    cs = msgev.boundary_cases(schema)
    for ty in ("TMix", "TOne", "TOpt", "TWkt"):
        cs += msgev.pair_cases(schema, ty, ctx.rnd, 40 if quick else 400)
    cs += msgev.random_cases(schema, ctx.rnd, 1500 if quick else 40000)
    if quick:
        cs = [c for k, c in enumerate(cs) if c.get("tag") == "random" or k % 2 == 0]
    # ... and a part of them again on the classes the real plugin generates for the schema
    msgev.gen_world()
    cs += msgev.as_generated([c for k, c in enumerate(cs) if k % (4 if quick else 2) == 0], skip=("TOneP", "TNames"))
    return cs


MC_CFG = "SPECIFICATION Spec\nINVARIANT T_PrintedIsAccepted\nINVARIANT T_PrintedIsCanonical\nCHECK_DEADLOCK FALSE\n"


def model_check(ctx, quick):
    """TLC: on the boundary family, the spec's canonical printer output is accepted, denotes the message, is canonical"""
    import concurrent.futures as cf
    import os
    from .. import common
    schema = msgev.world()["schema"]
    pool = [c for c in msgev.boundary_cases(schema) if not quick or hash(repr(c["val"])) % 3 == 0]
    nsh = common.NCPU
    shards = [pool[i::nsh] for i in range(nsh)]
    cfg = common.write_cfg(os.path.join(ctx.work, "MC_PJson.cfg"), MC_CFG)

    def one(k):
        p = os.path.join(ctx.work, "jpool%d.json" % k)
        common.dump_json(p, {"schema": jsontree.schema_for_tla(schema), "msgs": [{"ty": c["ty"], "val": c["val"]} for c in shards[k]]})
        r = common.tlc("MC_PJson", cfg=cfg, workers=1, env={"POOL_FILE": p}, timeout=1500, heap="3g")
        os.unlink(p)
        return r
    with cf.ThreadPoolExecutor(max_workers=nsh) as ex:
        rs = list(ex.map(one, range(nsh)))
    for r in rs:
        if r.violated:
            ctx.violations.append(("model:MC_PJson:" + r.violated, {"counterexample": ctx._counterexample(r.out)}))
        elif not r.ok:
            raise MachineryError("MC_PJson failed:\n" + r.out[-2500:])
    ctx.states += sum(r.distinct for r in rs)
    ctx.transitions += sum(r.generated for r in rs)
    ctx.mc_runs.append({"module": "MC_PJson", "config": "%d boundary messages in %d shards" % (len(pool), nsh), "distinct_states": sum(r.distinct for r in rs),
                        "states_generated": sum(r.generated for r in rs), "wall_s": round(max(r.wall for r in rs), 1),
                        "violated": [r.violated for r in rs if r.violated]})
    ctx.checker_cmds.append("tlc -config MC_PJson.cfg MC_PJson (POOL_FILE=<pool shard>)")


def run(ctx):
    quick = ctx.tier == "quick"
    model_check(ctx, quick)
    ctx.rule = ("Wide-family values (every field x boundary value x presence mode, pairs, seeded random; times at microsecond resolution): "
                "betterproto's to_json text parsed into a tree and judged by PJson.tla (denotes the value; canonical particulars), given to "
                "google.protobuf.json_format.Parse; the reference's MessageToJson text judged by the same spec and given to from_json; "
                "non-trivial = differs from the fresh message; distinct by (type, value)")
    ctx.assumptions = ["json.loads is the lexer/parser of JSON texts (transport); numerals are handed to the spec with their integer value / "
                       "IEEE bits", "google.protobuf.json_format is the reference; its output and its reading are checked against PJson.tla"]
    cs = cases(ctx, quick)
    for c in cs:
        ctx.count_case((c["ty"], repr(c["val"])), msgev.nontrivial(c))
    events = ctx.pmap(json_event, cs)
    ctx.sample({"type": events[30]["ty"], "json": events[30]["text"], "reference_json": events[30]["ref_text"]})
    ctx.sample({"type": events[-1]["ty"], "json": events[-1]["text"]})
    hdr = {"schema": jsontree.schema_for_tla(msgev.world()["schema"])}
    for e in events:
        e.pop("text", None)
        e.pop("ref_text", None)
    ctx.validate("Trace_Json", events, header=hdr, shard=1200, weight=lambda e: 1 + len(str(e["tree"])) // 2000)
    # documents read into objects that already hold values (from_json / from_dict on an instance): given fields replace what was
    # there (a repeated field is replaced, not extended - as the reference's Parse does), absent ones are kept
    from .. import hist
    hist.run_histories(ctx, ["TRep", "TMix", "TOne", "TOpt", "TMapV", "TScal"], 400 if quick else 12000, 8, "fromdict")
    bad = [(cl, c) for cl, c in ctx.violations if cl.startswith("ref_")]
    if bad:
        raise MachineryError("reference/spec disagreement: %s %r %r" % (bad[0][0], bad[0][1].get("case"), bad[0][1].get("_detail")))


def redrive(ev):
    if ev.get("case", {}).get("world") == "gen":
        msgev.gen_world()
    e = json_event({"ty": ev["ty"], "val": ev["val"], "tag": ev.get("case", {}).get("tag", ""), "world": ev.get("case", {}).get("world", "dyn")})
    e.pop("text", None)
    e.pop("ref_text", None)
    return e
