"""C02 Wire interoperability with the reference protobuf implementation.

spec -> code: TLC explores LegalEnc (spec/MC_Codec.tla) for a pool of small messages, checks the decoder-insensitivity
theorem on the specification and exports every terminal encoding; each is decoded by betterproto and by the reference.
code -> spec: betterproto's and the reference's own serialisations of Wide-family values are decoded by the other side.
All observations are judged by TLC (Trace_Codec, op xdec)."""
import concurrent.futures as cf
import json
import os

from .. import absval as av
from .. import common, dyn, gen, msgev
from ..common import MachineryError
from ..dyn import F

LEVEL = "model_checking"

MC_CFG = """SPECIFICATION Spec
CONSTANTS
  PadMax = %d
  MaxShadow = %d
  MaxUnknown = %d
  MaxChunk = %d
  MaxVar = %d
  Export = TRUE
INVARIANT DecoderInsensitive
INVARIANT CanonicalRoundTrip
INVARIANT PrefixWellFormed
INVARIANT SizeAgrees
CHECK_DEADLOCK FALSE
"""


def small_schema():
    types = {"Inner": [F("x", 1, "sint64"), F("s", 2, "string")],
             "L": [F("a", 1, "int32"), F("b", 2, "string", "optional"), F("c", 3, "sint32", "repeated"), F("d", 4, "double", "repeated"),
                   F("e_u", 5, "uint64", "oneof", group="g"), F("e_b", 6, "bool", "oneof", group="g"), F("e_s", 7, "string", "oneof", group="g"),
                   F("f", 8, "map", "map", kkind="string", vkind="int32"), F("m", 9, "message", msg="Inner"),
                   F("r", 10, "string", "repeated"), F("en", 11, "enum", enum="E"), F("fx", 12, "fixed32", "optional"),
                   F("w", 13, "wrap", vkind="int32"), F("bl", 14, "bool"), F("i64", 15, "int64"), F("rb", 16, "bool", "repeated"),
                   F("rf", 17, "fixed64", "repeated"), F("by", 18, "bytes"), F("fl", 19, "float"),
                   F("fm", 20, "map", "map", kkind="int32", vkind="message", msg="Inner"), F("fk", 21, "map", "map", kkind="bool", vkind="string")]}
    return {"types": types, "enums": {"E": gen.ENUM_E}}


def I(n):
    return av.aint(n)


def Sv(s):
    return {"k": "str", "cp": av.cps(s)}


FIELD_VALUES = {
    "a": [I(1), I(-1), I(2**31 - 1)], "b": [Sv(""), Sv("hi")], "c": [{"k": "list", "xs": [I(1), I(-2), I(300)]}, {"k": "list", "xs": [I(0)]}],
    "d": [{"k": "list", "xs": [av.f64(1.5), av.f64(-0.0)]}], "e_u": [I(0), I(2**64 - 1)], "e_b": [{"k": "bool", "v": False}, {"k": "bool", "v": True}],
    "e_s": [Sv(""), Sv("z")], "f": [{"k": "map", "es": [[Sv("k"), I(7)], [Sv(""), I(0)]]}],
    "m": [{"k": "msg", "m": {"x": I(0), "s": Sv("")}}, {"k": "msg", "m": {"x": I(-5), "s": Sv("é")}}],
    "r": [{"k": "list", "xs": [Sv("a"), Sv("")]}], "en": [I(1), I(-1), I(7)], "fx": [I(0), I(2**32 - 1)],
    "w": [{"k": "wrapv", "v": I(0)}, {"k": "wrapv", "v": I(-9)}], "bl": [{"k": "bool", "v": True}], "i64": [I(-2**63), I(2**63 - 1)],
    "rb": [{"k": "list", "xs": [{"k": "bool", "v": True}, {"k": "bool", "v": False}, {"k": "bool", "v": True}]}],
    "fm": [{"k": "map", "es": [[I(0), {"k": "msg", "m": {"x": I(0), "s": Sv("")}}], [I(-3), {"k": "msg", "m": {"x": I(-5), "s": Sv("é")}}]]}],
    "fk": [{"k": "map", "es": [[{"k": "bool", "v": False}, Sv("")], [{"k": "bool", "v": True}, Sv("t")]]}],
    "rf": [{"k": "list", "xs": [I(2**64 - 1), I(1)]}], "by": [{"k": "bytes", "b": [0, 255]}], "fl": [av.f32(-0.0), av.f32(float("nan"))],
}


def enc_unknown(num, wt, payload):
    def varint(n):
        out = bytearray()
        while True:
            b = n & 0x7F
            n >>= 7
            out.append(b | (0x80 if n else 0))
            if not n:
                return bytes(out)
    if wt == 0:
        return varint(num << 3) + varint(payload)
    if wt == 2:
        return varint(num << 3 | 2) + varint(len(payload)) + payload
    return varint(num << 3 | wt) + payload


# (the first carries a legal but non-minimal varint value, the third a non-minimal length prefix: re-emission is byte for byte)
UNKNOWN = [bytes([0xa0, 0x38, 0x96, 0x81, 0x00]), enc_unknown(901, 1, b"\x01\x02\x03\x04\x05\x06\x07\x08"), bytes([0xfa, 0x01, 0x82, 0x00]) + b"ab",
           enc_unknown(903, 5, b"\xff\x00\xff\x00"), enc_unknown(2**29 - 1, 2, b"")]      # (the largest legal field number, empty payload)


# field numbers of the block 19000..19999 (a .proto file may not *declare* them; on the wire they are numbers like any other) and
# its neighbours - only used by the history drivers
UNKNOWN_MORE = [enc_unknown(19000, 0, 5), enc_unknown(19999, 2, b"a"), enc_unknown(18999, 5, b"\x01\x02\x03\x04"), enc_unknown(20000, 0, 0)]


def pool(ctx, quick):
    schema = small_schema()
    base = gen.fresh(schema, "L")
    msgs = [{"ty": "L", "val": base}]
    names = list(FIELD_VALUES)
    for n in names:
        for v in FIELD_VALUES[n]:
            val = dict(base)
            val[n] = v
            msgs.append({"ty": "L", "val": val})
    rnd = ctx.rnd
    combos = 32 if quick else 300
    def natoms(val):
        n = 0
        for v in val.values():
            n += len(v["xs"]) if v.get("k") == "list" else 2 * len(v["es"]) if v.get("k") == "map" else 0 if v.get("k") == "unset" else 1
        return n
    made = 0
    while made < combos:
        k = rnd.choice([2, 2, 3])
        ns = rnd.sample(names, k)
        groups = [n for n in ns if n.startswith("e_")]
        if len(groups) > 1:
            ns = [n for n in ns if not n.startswith("e_")] + groups[:1]
        val = dict(base)
        for n in ns:
            val[n] = rnd.choice(FIELD_VALUES[n])
        if natoms(val) - natoms(base) > (6 if quick else 8):
            continue          # (the state space of one message grows fast with the number of its atoms: keep the run bounded)
        made += 1
        msgs.append({"ty": "L", "val": val})
    return schema, msgs


_W = {}


def dec_world(schema):
    if "bp" not in _W:
        _W["schema"] = schema
        _W["bp"] = dyn.make_bp(schema)
        _W["ref"] = dyn.make_ref(schema)
    return _W


def xdec_events(args):
    schema, ty, val, b, tag = args[:5]
    w = dec_world(schema)
    out = []
    for impl in ("bp", "ref"):
        ev = {"op": "xdec", "impl": impl, "src": "spec", "ty": ty, "val": val, "b": list(b), "res": "ok", "obs": val, "case": {"ty": ty, "tag": tag}}
        try:
            if impl == "bp":
                ev["obs"] = dyn.obs_decoded(schema, w["bp"][ty]().parse(bytes(b)), ty)
            else:
                m = w["ref"][ty]()
                m.ParseFromString(bytes(b))
                ev["obs"] = dyn.obs_ref(schema, m, ty)
        except Exception as ex:
            ev["res"] = type(ex).__name__ + ":" + str(ex)[:60]
        out.append(ev)
    return out


def cross_events(case):
    """betterproto bytes -> reference decoder, reference bytes -> betterproto decoder (Wide family)"""
    w = msgev.world()
    schema, C, R = w["schema"], w["bp"], msgev.ref_classes()
    ty, val = case["ty"], case["val"]
    out = []
    try:
        b_bp = bytes(dyn.conc_bp(schema, C, ty, val))
        ev = {"op": "xdec", "impl": "ref", "src": "bp", "dir": "bp->ref", "ty": ty, "val": val, "b": list(b_bp), "res": "ok", "obs": val,
              "case": {"ty": ty, "tag": case.get("tag", "")}}
        try:
            m = R[ty]()
            m.ParseFromString(b_bp)
            ev["obs"] = dyn.obs_ref(schema, m, ty)
        except Exception as ex:
            ev["res"] = type(ex).__name__ + ":" + str(ex)[:60]
        out.append(ev)
    except Exception as ex:
        out.append({"op": "xdec", "impl": "ref", "src": "bp", "dir": "bp->ref", "ty": ty, "val": val, "b": [-1], "res": type(ex).__name__, "obs": val,
                    "case": {"ty": ty, "tag": case.get("tag", "")}})
    b_ref = dyn.fill_ref(schema, R, ty, val).SerializeToString()
    ev = {"op": "xdec", "impl": "bp", "src": "ref", "dir": "ref->bp", "ty": ty, "val": val, "b": list(b_ref), "res": "ok", "obs": val,
          "case": {"ty": ty, "tag": case.get("tag", "")}}
    try:
        ev["obs"] = dyn.obs_decoded(schema, C[ty]().parse(b_ref), ty)
    except Exception as ex:
        ev["res"] = type(ex).__name__ + ":" + str(ex)[:60]
    out.append(ev)
    return out


def run_legalenc(ctx, schema, msgs, params, export, timeout=1500, invariants=("DecoderInsensitive", "CanonicalRoundTrip", "PrefixWellFormed", "SizeAgrees")):
    """TLC on spec/MC_Codec.tla over a pool of messages, 16 single-worker shards; returns exported terminal encodings"""
    # cost-balanced: the state space of a message grows with the number of its atoms (list items, map entries, set fields);
    # heavy messages get a TLC process of their own with several workers and start first, light ones share single-worker processes
    def atoms(m):
        n = 0
        for v in m["val"].values():
            n += len(v["xs"]) if v.get("k") == "list" else 2 * len(v["es"]) if v.get("k") == "map" else 0 if v.get("k") == "unset" else 1
        return n
    order = sorted(range(len(msgs)), key=lambda i: -atoms(msgs[i]))
    heavy = [i for i in order if atoms(msgs[i]) >= 5][:6]
    light = [i for i in order if i not in heavy]
    nl = max(1, common.NCPU - len(heavy))
    shards = [[msgs[i]] for i in heavy] + [s_ for s_ in ([msgs[i] for i in light[j::nl]] for j in range(nl)) if s_]
    wk = [4] * len(heavy) + [1] * (len(shards) - len(heavy))
    cfg_text = (MC_CFG % params).replace("Export = TRUE", "Export = " + ("TRUE" if export else "FALSE"))
    cfg_text = "\n".join(l for l in cfg_text.splitlines() if not l.startswith("INVARIANT") or l.split()[1] in invariants) + "\n"
    cfg = common.write_cfg(os.path.join(ctx.work, "MC_Codec_%d.cfg" % len(ctx.mc_runs)), cfg_text)

    def one(k):
        p = os.path.join(ctx.work, "pool%d_%d.json" % (len(ctx.mc_runs), k))
        common.dump_json(p, {"schema": schema, "msgs": shards[k], "unknown": [list(u) for u in UNKNOWN]})
        r = common.tlc("MC_Codec", cfg=cfg, workers=wk[k], env={"POOL_FILE": p}, timeout=timeout, heap="3g")
        os.unlink(p)
        return r
    with cf.ThreadPoolExecutor(max_workers=common.NCPU) as ex:
        results = list(ex.map(one, range(len(shards))))
    cases = []
    tot_d = tot_g = 0
    wall = 0
    for k, r in enumerate(results):
        if os.environ.get("VERIF_TIMING"):
            print("TIMING legalenc shard", k, len(shards[k]), "msgs", r.distinct, "states", round(r.wall, 1), "s")
        tot_d += r.distinct
        tot_g += r.generated
        wall = max(wall, r.wall)
        if r.violated:
            ctx.violations.append(("model:MC_Codec:" + r.violated, {"counterexample": ctx._counterexample(r.out)}))
            continue
        if not r.ok:
            raise MachineryError("MC_Codec failed:\n" + r.out[-3000:])
        for v in r.printed():
            if isinstance(v, list) and v and v[0] == "CASE":
                m = shards[k][v[1] - 1]
                cases.append((schema, m["ty"], m["val"], bytes(v[2]), "legalenc", bytes(v[3])))
    ctx.states += tot_d
    ctx.transitions += tot_g
    ctx.mc_runs.append({"module": "MC_Codec", "config": "PadMax,MaxShadow,MaxUnknown,MaxChunk,MaxVar=%r export=%s; %d messages in %d shards" % (params, export, len(msgs), len(shards)),
                        "distinct_states": tot_d, "states_generated": tot_g, "wall_s": round(wall, 1),
                        "violated": [r.violated for r in results if r.violated]})
    ctx.checker_cmds.append("tlc -config MC_Codec.cfg MC_Codec (POOL_FILE=<pool shard>)")
    return cases


def run(ctx):
    quick = ctx.tier == "quick"
    ctx.rule = ("(i) every terminal state of the LegalEnc state machine (field order, packed/unpacked/chunked repeated scalars, padded varints, "
                "shadowed singular scalars and oneof members, interleaved unknown fields) for a pool of small messages, decoded by both "
                "implementations; (ii) Wide-family boundary/random values serialised by each implementation and decoded by the other; "
                "non-trivial = non-empty encoding; distinct by (type, bytes)")
    ctx.assumptions = ["google.protobuf (upb) is the reference; its observations must satisfy the spec too (else machinery error)",
                       "merging of split sub-messages is outside the statement (flagged by the spec decoder and accepted)",
                       "float values are compared numerically (NaN identified, -0.0 == 0.0), as Python equality does"]
    schema, msgs = pool(ctx, quick)
    cases = run_legalenc(ctx, schema, msgs, (1, 1, 1, 2, 2) if quick else (2, 1, 2, 3, 2), True, 1500 if quick else 6000)
    seen = set()
    uniq = []
    for c in cases:
        key = (c[1], c[3])
        if key not in seen:
            seen.add(key)
            uniq.append(c)
    ctx.notes["legalenc_terminal_encodings"] = len(cases)
    ctx.notes["legalenc_distinct_encodings"] = len(uniq)
    limit = 40000 if quick else 600000
    if len(uniq) > limit:
        ctx.rnd.shuffle(uniq)
        uniq = uniq[:limit]
    events = []
    for lst in ctx.pmap(xdec_events, uniq):
        events += lst
    for c in uniq:
        ctx.count_case((c[1], c[3]), len(c[3]) > 0)
    if uniq:
        ctx.sample({"legalenc_case": {"val": uniq[len(uniq) // 2][2], "bytes": list(uniq[len(uniq) // 2][3])}})
    ctx.validate("Trace_Codec", events, header={"schema": schema}, shard=6000)
    # (ii) cross serialisation on the Wide family
    w = msgev.world()
    cs = msgev.boundary_cases(w["schema"]) + msgev.random_cases(w["schema"], ctx.rnd, 1500 if quick else 50000)
    ev2 = []
    for lst in ctx.pmap(cross_events, cs):
        ev2 += lst
    for e in ev2:
        ctx.count_case((e["ty"], bytes(e["b"])), len(e["b"]) > 0)
    ctx.sample({"cross_case": {"dir": ev2[51]["dir"], "ty": ev2[51]["ty"], "bytes": ev2[51]["b"]}})
    ctx.validate("Trace_Codec", ev2, header={"schema": w["schema"]}, shard=1500, weight=lambda e: 1 + len(e["b"]) // 40)
    # the reference must satisfy the spec: otherwise the machinery (spec or binding) is wrong, not betterproto
    bad = [(cl, c) for cl, c in ctx.violations if cl.startswith(("spec_", "ref_"))]
    if bad:
        raise MachineryError("reference/spec disagreement: %s %s" % (bad[0][0], json.dumps(bad[0][1])[:1500]))


def redrive(ev):
    """decode the recorded bytes again with the recorded implementation on the current tree"""
    if ev.get("op") != "xdec":
        return None
    if ev.get("dir"):
        evs = cross_events({"ty": ev["ty"], "val": ev["val"], "tag": ev.get("case", {}).get("tag", "")})
        return next((e for e in evs if e.get("dir") == ev["dir"]), None)
    evs = xdec_events((small_schema(), ev["ty"], ev["val"], bytes(ev["b"]), ev.get("case", {}).get("tag", "")))
    return next((e for e in evs if e["impl"] == ev["impl"]), None)
