"""C08 Unknown fields survive decode/encode; schema evolution is lossless."""
import itertools

from .. import absval as av
from .. import dyn, gen, msgev
from ..dyn import F
from . import c02

LEVEL = "model_checking"

NEW = [F("a", 1, "int64"), F("b", 2, "fixed32"), F("c", 3, "double"), F("d", 4, "string"), F("e", 5, "sint32", "repeated"),
       F("f", 6, "message", msg="Inner"), F("g_u", 7, "uint32", "oneof", group="g"), F("g_s", 8, "string", "oneof", group="g"),
       F("h", 9, "map", "map", kkind="string", vkind="int32"), F("i", 10, "message", "repeated", msg="Inner"),
       F("j", 2000, "sfixed64", "optional"), F("k", 2**29 - 1, "bytes")]      # k: the largest legal field number


def I(n):
    return av.aint(n)


def Sv(s):
    return {"k": "str", "cp": av.cps(s)}


def inner(x, s):
    return {"k": "msg", "m": {"x": I(x), "s": Sv(s)}}


VALUES = {
    "a": [I(-1), I(2**63 - 1)], "b": [I(2**32 - 1)], "c": [av.f64(-2.5), av.f64(float("nan"))], "d": [Sv("héllo")],
    "e": [{"k": "list", "xs": [I(-1), I(150), I(0)]}], "f": [inner(0, ""), inner(-7, "q")], "g_u": [I(0), I(9)], "g_s": [Sv(""), Sv("s")],
    "h": [{"k": "map", "es": [[Sv("k"), I(1)], [Sv(""), I(0)]]}], "i": [{"k": "list", "xs": [inner(1, "a"), inner(0, "")]}],
    "j": [I(0), I(-2**63)], "k": [{"k": "bytes", "b": [0, 1, 255]}],
}


def world(subsets):
    types = {"Inner": [F("x", 1, "sint64"), F("s", 2, "string")], "NewT": NEW}
    for k, drop in enumerate(subsets):
        types["O%d" % k] = [f for f in NEW if f["name"] not in drop]
    schema = {"types": types, "enums": {"E": gen.ENUM_E}}
    return schema


_W = {}


def evo_event(args):
    schema, val, k, drop = args
    if "bp" not in _W:
        _W["bp"] = dyn.make_bp(schema)
        _W["ref"] = dyn.make_ref({"types": {"Inner": schema["types"]["Inner"], "NewT": schema["types"]["NewT"]}, "enums": schema["enums"]})
    C, R = _W["bp"], _W["ref"]
    oty = "O%d" % k
    ev = {"op": "evo", "ty": "NewT", "oty": oty, "val": val, "res": "ok", "b": [], "b_old": [], "obs_old": gen.fresh(schema, oty), "obs_new": val,
          "obs_ref": val, "stream": "ok", "case": {"ty": "NewT", "tag": "drop " + ",".join(sorted(drop))}}
    try:
        b = bytes(dyn.conc_bp(schema, C, "NewT", val))
        ev["b"] = list(b)
        old = C[oty]().parse(b)
        ev["obs_old"] = dyn.obs_decoded(schema, old, oty)
        b_old = bytes(old)
        ev["b_old"] = list(b_old)
        ev["obs_new"] = dyn.obs_decoded(schema, C["NewT"]().parse(b_old), "NewT")
        m = R["NewT"]()
        m.ParseFromString(b_old)
        ev["obs_ref"] = dyn.obs_ref(schema, m, "NewT")
        # the same relay over a size-delimited stream: two copies, the older reader must read both and stop at the end
        import io
        import betterproto
        st = io.BytesIO()
        nm = dyn.conc_bp(schema, C, "NewT", val)
        nm.dump(st, betterproto.SIZE_DELIMITED)
        nm.dump(st, betterproto.SIZE_DELIMITED)
        rs = io.BytesIO(st.getvalue())
        try:
            o1 = C[oty]().load(rs, betterproto.SIZE_DELIMITED)
            o2 = C[oty]().load(rs, betterproto.SIZE_DELIMITED)
            if rs.tell() != len(st.getvalue()):
                ev["stream"] = "stopped_at_%d_of_%d" % (rs.tell(), len(st.getvalue()))
            elif bytes(o1) != b_old or bytes(o2) != b_old:
                ev["stream"] = "relayed_bytes_differ"
        except Exception as ex:
            ev["stream"] = type(ex).__name__
    except Exception as ex:
        ev["res"] = type(ex).__name__ + ":" + str(ex)[:60]
    return ev


def unk_event(args):
    schema, ty, val, b, tag, unk = args
    w = c02.dec_world(schema)
    ev = {"op": "unk", "ty": ty, "val": val, "b": list(b), "unk": list(unk), "res": "ok", "obs": val, "b2": [], "case": {"ty": ty, "tag": tag, "src": list(b)}}
    try:
        m = w["bp"][ty]().parse(bytes(b))
        ev["obs"] = dyn.obs_bp(schema, m, ty)
        ev["b2"] = list(bytes(m))
    except Exception as ex:
        ev["res"] = type(ex).__name__ + ":" + str(ex)[:60]
    return ev


def run(ctx):
    quick = ctx.tier == "quick"
    ctx.rule = ("(i) newer schema N (12 fields over the four wire types, nested, repeated packed, repeated message, map, oneof, optional, a "
                "high field number) x older schemas obtained by deleting a subset of fields x a pool of values: old reader parses, re-emits, "
                "new reader and the reference read the re-emission; (ii) LegalEnc encodings with up to 2 unknown fields at any position: "
                "betterproto parses and re-emits; (iii) histories with several parses into one object (unknown fields, incl. the largest legal "
                "field number, in each), assignments and copies in between.  non-trivial = at least one dropped field carries data / one unknown field present")
    ctx.assumptions = ["unknown fields are compared as raw bytes in arrival order through the spec's decoder (SpecDecode(...).unk), not through "
                       "betterproto's private attribute"]
    names = [f["name"] for f in NEW]
    allsubs = [frozenset(c) for r in range(0, len(names) + 1) for c in itertools.combinations(names, r)]
    rnd = ctx.rnd
    if quick:
        subs = [s for s in allsubs if len(s) <= 1] + rnd.sample([s for s in allsubs if len(s) > 1], 50)
    else:
        subs = [s for s in allsubs if len(s) <= 2] + rnd.sample([s for s in allsubs if len(s) > 2], 700)
    schema = world(subs)
    base = gen.fresh(schema, "NewT")
    vals = []
    full = dict(base)
    for n in names:
        if n != "g_s":
            full[n] = VALUES[n][-1]
    vals.append(full)
    full2 = dict(base)
    for n in names:
        if n != "g_u":
            full2[n] = VALUES[n][0]
    vals.append(full2)
    for _ in range(6 if quick else 30):
        v = dict(base)
        for n in rnd.sample(names, rnd.randint(2, 6)):
            if n.startswith("g_") and any(v[x] != base[x] for x in ("g_u", "g_s")):
                continue
            v[n] = rnd.choice(VALUES[n])
        vals.append(v)
    cases = [(schema, v, k, sorted(d)) for k, d in enumerate(subs) for v in vals]
    events = ctx.pmap(evo_event, cases)
    for c in cases:
        dropped_data = any(c[1][n] != base[n] for n in c[3])
        ctx.count_case((repr(c[1]), tuple(c[3])), dropped_data)
    ctx.sample({"value": vals[0], "dropped": cases[5][3], "bytes": events[5]["b"], "reemitted_by_old": events[5]["b_old"]})
    ctx.validate("Trace_Codec", events, header={"schema": schema}, shard=2500)
    # (ii) unknown fields interleaved anywhere (spec -> code)
    small, msgs = c02.pool(ctx, quick)
    lcases = c02.run_legalenc(ctx, small, msgs, (0, 0, 2, 2, 2) if quick else (1, 1, 2, 3, 2), True, 1500 if quick else 6000)
    if len(lcases) > (60000 if quick else 400000):          # (a seeded sample of the exported encodings is replayed)
        ctx.rnd.shuffle(lcases)
        lcases = lcases[:60000 if quick else 400000]
    ev2 = ctx.pmap(unk_event, lcases)
    for e in ev2:
        ctx.count_case(("unk", bytes(e["b"])), len(e["unk"]) > 0)
    withunk = [e for e in ev2 if e["unk"]]
    if withunk:
        ctx.sample({"legalenc_with_unknown": {"bytes": withunk[len(withunk) // 2]["b"], "unknown": withunk[len(withunk) // 2]["unk"]}})
    ctx.notes["encodings_with_unknown_fields"] = len(withunk)
    ctx.notes["older_schemas"] = len(subs)
    ctx.validate("Trace_Codec", ev2, header={"schema": small}, shard=6000)
    # (iii) along histories: several parses into one object (merging partial updates), assignments, copies in between --
    # after every call the re-emission carries every unknown field received so far, byte for byte, in arrival order
    from .. import hist
    # directed: an object that holds nothing but fields it does not know, that nobody has looked at, is copied (blind steps)
    extra = []
    for ty in ["TMix", "TOpt", "TOne", "TRep", "TImpl", "Node"]:
        for cp in ("copy", "deepcopy", "pickle"):
            for unk in ([0], [1, 2], [4, 3, 0]):
                extra.append((ty, [{"op": "new", "kw": [], "blind": True}, {"op": "parse", "src": gen.fresh(msgev.world()["schema"], ty), "unk": unk, "blind": True},
                                   {"op": cp, "blind": True}, {"op": "observe"}, {"op": cp}, {"op": "parse", "src": gen.fresh(msgev.world()["schema"], ty), "unk": [2]}]))
    hist.run_histories(ctx, ["TMix", "TOpt", "TOne", "TRep", "TImpl", "Node"], 500 if quick else 15000, 8, "unknown", extra=extra)
