"""C03 Plugin output faithfully implements the schema (translation validity)."""
import glob
import os
import random

from .. import common, gen_proto, protoc

LEVEL = "translation_validation"


def compile_case(args):
    if len(args) > 4:
        work, name, protos, options, rerun = args
        return protoc.compile_event(work, name, protos, options, rerun=rerun)
    work, name, protos, options = args
    return protoc.compile_event(work, name, protos, options)


def repo_corpus():
    """the repository's own tests/inputs/*/*.proto as fixed programs (one program per directory)"""
    out = []
    for d in sorted(glob.glob(os.path.join(common.REPO, "tests", "inputs", "*"))):
        files = sorted(glob.glob(os.path.join(d, "*.proto")))
        if not files:
            continue
        protos = {os.path.basename(f): open(f).read() for f in files}
        out.append((os.path.basename(d), protos))
    return out


def bundled_tables():
    """field tables of betterproto's bundled descriptor / plugin classes and of google.protobuf's own descriptors"""
    import dataclasses
    import betterproto
    import betterproto.lib.std.google.protobuf as bstd
    import betterproto.lib.std.google.protobuf.compiler as bcomp
    from google.protobuf import descriptor_pb2
    from google.protobuf.compiler import plugin_pb2
    from google.protobuf import any_pb2, duration_pb2, empty_pb2, field_mask_pb2, struct_pb2, timestamp_pb2, wrappers_pb2, api_pb2, type_pb2, source_context_pb2
    ref = {}
    T = descriptor_pb2.FieldDescriptorProto
    tn = {v: n[5:].lower() for n, v in T.Type.items()}

    def walk(prefix, m):
        ref[prefix + m.name] = {f.name: [f.number, tn[f.type], bool(getattr(f, "is_repeated", False))] for f in m.fields}
        for n in m.nested_types:
            if not n.GetOptions().map_entry:
                walk(prefix + m.name, n)
    for mod in (descriptor_pb2, plugin_pb2, any_pb2, duration_pb2, empty_pb2, field_mask_pb2, struct_pb2, timestamp_pb2, wrappers_pb2, api_pb2, type_pb2,
                source_context_pb2):
        for m in mod.DESCRIPTOR.message_types_by_name.values():
            walk("", m)
    events = []
    for mod in (bstd, bcomp):
        for name, cls in vars(mod).items():
            if isinstance(cls, type) and issubclass(cls, betterproto.Message) and cls.__module__ == mod.__name__:
                impl = []
                for f in dataclasses.fields(cls):
                    md = betterproto.FieldMetadata.get(f)
                    impl.append({"py": f.name, "num": md.number, "ptype": md.proto_type, "ismap": md.proto_type == "map"})
                r = ref.get(name)
                events.append({"op": "bundled", "msg": name, "known": r is not None,
                               "ref": [{"name": k, "num": v[0], "ptype": v[1], "rep": v[2]} for k, v in sorted((r or {}).items())], "impl": impl,
                               "case": {"msg": name}})
    return events


def plugin_header(events):
    """package names containing a capital letter (text the spec cannot look into): data for KF_C13_CapitalizedPackage"""
    caps = sorted({m["pkg"] for e in events for m in e["prog"]["msgs"] + e["prog"]["enums"] if any(c.isupper() for c in m["pkg"])})
    import builtins
    return {"capitalized_packages": caps or ["<none>"],
            "builtin_type_names": sorted(n for n in dir(builtins) if isinstance(getattr(builtins, n), type) and n.islower())}


def run(ctx):
    quick = ctx.tier == "quick"
    ctx.rule = ("programs = proto3 schemas from a grammar-based generator (packages in 9 relative shapes, nested messages/enums, negative and "
                "aliased enum numbers, 15 scalar kinds, maps over every key kind, oneofs, proto3 optional, repeated, recursive / mutually "
                "recursive and cross-package references, well-known types, keyword-like field names, services) + the repository's tests/inputs "
                "corpus, each compiled by the real plugin, imported in a fresh interpreter and compared class by class / field by field with "
                "Plugin!Translate of the schema protoc reported; non-trivial = at least 2 fields; distinct by program text")
    ctx.assumptions = ["protoc (grpc_tools) decides which schemas are valid and reports them in the FileDescriptorSet the spec is applied to",
                       "ruff is replaced by an identity shim: the unformatted template output is the object under test",
                       "message names are PascalCase identifiers (M0, N1 ...), for which class-name flattening is plain concatenation"]
    rnd = ctx.rnd
    protoc._tools(ctx.work)
    n = 300 if quick else 5000
    cases = []
    for k in range(n):
        protos = gen_proto.gen_program(random.Random(rnd.getrandbits(48)))
        cases.append((ctx.work, "g%d" % k, protos, ()))
    corpus = repo_corpus()
    for name, protos in corpus:
        cases.append((ctx.work, "c_" + name, protos, ()))
    ncorpus_end = len(cases)
    # incremental generation: everything first, then one sub-package (or the parent) again into the same directory
    inc = {"shop.proto": 'syntax = "proto3";\npackage shop;\nenum Tier { TIER_ZERO = 0; TIER_GOLD = 1; }\nmessage Customer { string name = 1; Tier tier = 2; }\n',
           "shop/billing/b.proto": 'syntax = "proto3";\npackage shop.billing;\nmessage Invoice { int64 cents = 1; repeated string lines = 2; }\n',
           "shop/billing/v2/c.proto": 'syntax = "proto3";\npackage shop.billing.v2;\nimport "shop/billing/b.proto";\nmessage Invoice2 { shop.billing.Invoice old = 1; }\n'}
    cases.append((ctx.work, "inc_sub", inc, (), ["shop/billing/b.proto"]))
    cases.append((ctx.work, "inc_leaf", inc, (), ["shop/billing/v2/c.proto"]))
    cases.append((ctx.work, "inc_parent", inc, (), ["shop.proto"]))
    from . import c18
    for name, protos in c18.feature_programs():          # single-feature packages (alone, in a sub-package, in several packages of one run)
        cases.append((ctx.work, "f_" + name, protos, ()))
    events = ctx.pmap(compile_case, cases, chunk=2)
    for c, e in zip(cases, events):
        e["case"]["name"] = c[1]
        ctx.count_case(repr(sorted(c[2].items())), sum(len(m["fields"]) for m in e["prog"]["msgs"]) >= 2)
    ok_prog = [e for e in events if e["rc"] == 0]
    ctx.sample({"program": cases[0][2], "classes": [(m["mod"], m["cls"], len(m["fields"])) for m in events[0]["obs"]["messages"]]})
    # programs protoc itself rejects are generator noise, not plugin failures: protoc's error text says so
    judged, = protoc.drop_rejected(ctx, events)
    ctx.notes["programs"] = len(judged)
    ctx.notes["repository_corpus_programs"] = len(corpus)
    for e in judged:
        e.pop("stubs", None)
    ctx.validate("Trace_Plugin", judged, shard=40, header=plugin_header(judged))
    ev2 = bundled_tables()
    ctx.validate("Trace_Bundled", ev2, shard=200)
    ctx.notes["disagreements_checked"] = len(judged) + len(ev2)
    ctx.notes["bundled_messages_compared"] = len(ev2)
