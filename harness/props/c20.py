"""C20 Enums are open, canonical and immutable."""
import copy
import itertools
import pickle

import betterproto

from .. import gen, msgev
from . import c04

LEVEL = "model_checking"

MC_CFG = """SPECIFICATION Spec
CONSTANTS
  Names = {"A", "B", "C"%s}
  MaxMembers = %d
INVARIANT CanonicalMembers
INVARIANT LookupsFaithful
INVARIANT UnknownStaysUnknown
PROPERTY RegistryImmutable
VIEW ViewReg
CHECK_DEADLOCK FALSE
"""
NUMBERS = [-2**31, -1, 0, 1, 2, 2**31 - 1]
PROBES = NUMBERS + [7, -7, 100]
_CACHE = {}


def make_enum(defn):
    """a module-level enum class (so that pickling can find it)"""
    key = tuple(tuple(x) for x in defn)
    if key not in _CACHE:
        import sys
        import types
        modname = "verif_enum_%d" % len(_CACHE)
        mod = types.ModuleType(modname)
        sys.modules[modname] = mod
        ns = {"__module__": modname, "__qualname__": "E"}
        for n, v in defn:
            ns[n] = v
        cls = type(betterproto.Enum)("E", (betterproto.Enum,), ns)
        mod.E = cls
        _CACHE[key] = cls
    return _CACHE[key]


SPECIAL = {"__eq__": lambda a, b: False, "__hash__": lambda a: 0, "__str__": lambda a: "x", "__repr__": lambda a: "x", "__doc__": "changed",
           "__copy__": lambda a: None, "__deepcopy__": lambda a, memo: None, "__getnewargs_ex__": lambda a: ((), {}), "__module__": "elsewhere",
           "__setattr__": object.__setattr__, "__int__": lambda a: 0, "_value_map_": {}, "_member_map_": {}, "__call__": None, "__members__": {},
           "__final__": True, "__deprecated__": "use something else"}


def observe(E, defn):
    o = {"err": "", "members": [], "undefined": []}
    try:
        for n, v in defn:
            m = E[n]
            o["members"].append({"decl": n, "name": str(m.name), "value": int(m.value), "same_as_bynumber": E(v) is m,
                                 "same_as_attr": getattr(E, n) is m})
        defined = {v for _, v in defn}
        for u in PROBES:
            if u in defined:
                continue
            try:
                E(u)
                acc = True
            except ValueError:
                acc = False
            o["undefined"].append({"n": u, "accepted": acc})
    except Exception as ex:
        o["err"] = type(ex).__name__ + ":" + str(ex)[:60]
    return o


def run_enum(args):
    defn, ops = args
    E = make_enum(defn)
    log = []
    for op in ops:
        e = {"op": op[0], "n": 0, "s": "", "res": "ok", "name": "", "value": 0, "ident": True, "eqint": True}
        try:
            k = op[0]
            if k in ("bynum", "try"):
                e["n"] = op[1]
                m = E(op[1]) if k == "bynum" else E.try_value(op[1])
                e["name"], e["value"] = str(m.name), int(m.value)
                e["eqint"] = bool(m == op[1]) and isinstance(m, int)
                canon = next((n for n, v in defn if v == op[1]), None)
                e["ident"] = (getattr(E, canon) is m) if canon else True
            elif k in ("byname", "fromstring"):
                e["s"] = op[1]
                m = E[op[1]] if k == "byname" else E.from_string(op[1])
                e["name"], e["value"] = str(m.name), int(m.value)
                e["ident"] = E(int(m.value)) is m
            elif k in ("copy", "deepcopy", "pickle"):
                e["n"] = op[1]
                m = E.try_value(op[1])
                c = copy.copy(m) if k == "copy" else copy.deepcopy(m) if k == "deepcopy" else pickle.loads(pickle.dumps(m))
                e["ident"] = c is m
                e["name"], e["value"] = str(c.name), int(c.value)
            elif k == "setattr_class":
                setattr(E, defn[0][0], 5)
            elif k == "setattr_new":
                setattr(E, "BRAND_NEW", 5)
            elif k == "delattr_class":
                delattr(E, defn[0][0])
            elif k == "setattr_special":         # special / bookkeeping names are attributes of the class like any other
                e["s"] = op[1]
                setattr(E, op[1], SPECIAL[op[1]])
            elif k == "delattr_special":
                e["s"] = op[1]
                delattr(E, op[1])
            elif k == "setattr_member":
                E[defn[0][0]].name = "X"
            elif k == "setattr_value":
                E[defn[0][0]].value = 99
            elif k == "delattr_member":
                del E[defn[0][0]].name
        except Exception as ex:
            e["res"] = type(ex).__name__
        e["obs"] = observe(E, defn)
        log.append(e)
    return {"def": [{"name": n, "num": v} for n, v in defn], "log": log, "case": {"def": defn, "ops": ops}}


def definitions(quick):
    names = ["A", "B", "C", "D"]
    out = []
    for k in (1, 2, 3):
        for nums in itertools.product(NUMBERS, repeat=k):
            out.append([[names[i], nums[i]] for i in range(k)])
    if quick:
        out = [d for j, d in enumerate(out) if len(d) < 3 or j % 3 == 0]
    return out


def run(ctx):
    quick = ctx.tier == "quick"
    ctx.rule = ("every enum definition with 1..3 members over numbers {-2^31, -1, 0, 1, 2, 2^31-1} (all alias/gap shapes) x a seeded random "
                "history of lookups by number / name, try_value, from_string, copy / deepcopy / pickle of defined and undefined members and "
                "mutation attempts on class and members; after each call the whole class is observed; plus binary and JSON round trips of "
                "enum-typed fields (singular, optional, repeated, oneof, map value) over the int32 boundary numbers, defined and undefined; "
                "non-trivial = definition with an alias or a history touching an undefined number")
    ctx.assumptions = ["identity of members is observed with `is` against getattr(E, name) and E(number)"]
    ctx.mc("EnumReg", MC_CFG % (("", 3) if quick else (', "D"', 4)), name="EnumReg", expect_actions=("Declare", "Define", "ByNumber", "ByName", "TryValue", "Mutate"))
    rnd = ctx.rnd
    work = []
    for d in definitions(quick):
        names = [n for n, _ in d]
        for _ in range(1 if quick else 4):
            ops = []
            for _ in range(rnd.randint(4, 10)):
                k = rnd.choice(["bynum", "try", "byname", "fromstring", "copy", "deepcopy", "pickle", "try", "bynum", "setattr_class", "delattr_class",
                                "setattr_member", "delattr_member", "setattr_new", "setattr_value", "setattr_special", "delattr_special"])
                if k in ("bynum", "try", "copy", "deepcopy", "pickle"):
                    ops.append([k, rnd.choice(PROBES)])
                elif k in ("byname", "fromstring"):
                    ops.append([k, rnd.choice(names + ["ZZZ"])])
                elif k.endswith("_special"):
                    ops.append([k, rnd.choice(sorted(SPECIAL))])
                else:
                    ops.append([k])
            work.append((d, ops))
    events = [run_enum(w) for w in work]           # in-process: the classes are cached per definition
    for d, ops in work:
        ctx.count_case((repr(d), repr(ops)), len({v for _, v in d}) < len(d) or any(len(o) > 1 and o[1] not in {v for _, v in d} for o in ops))
    ctx.sample({"definition": work[40][0], "ops": work[40][1], "first_event": events[40]["log"][0]})
    ctx.validate("Trace_Enum", events, shard=400)
    # enum-typed fields through both codecs
    w = msgev.world()
    schema = w["schema"]
    cs = []
    for ty, fname in (("TImpl", "i_enum"), ("TOpt", "o_enum"), ("TRep", "r_enum"), ("TOne", "g_enum"), ("TMapV", "mv_enum"), ("TMix", "e")):
        f = next(x for x in schema["types"][ty] if x["name"] == fname)
        for v in gen.field_domain(schema, f):
            val = gen.fresh(schema, ty)
            val[fname] = v
            cs.append({"ty": ty, "val": val, "tag": fname})
    ev1 = ctx.pmap(msgev.rt_event, cs)
    for c in cs:
        ctx.count_case((c["ty"], repr(c["val"])), True)
    ctx.validate("Trace_Codec", ev1, header={"schema": schema}, shard=2000)
    from .. import jsontree
    work2 = [(c, v) for c in cs for v in (("CAMEL", "json", "cls"), ("SNAKE", "dict", "inst"))]
    ev2 = ctx.pmap(c04.rtjson_event, work2)
    ctx.validate("Trace_Json", ev2, header={"schema": jsontree.schema_for_tla(schema)}, shard=2000)


def redrive(ev):
    if "def" in ev.get("case", {}):
        return run_enum((ev["case"]["def"], ev["case"]["ops"]))
    return None
