"""C18 Every supported plugin option yields importable, behaviourally identical code."""
import json
import os
import random
import re
import shutil
import subprocess

from .. import common, gen_proto, protoc
from . import c03

LEVEL = "translation_validation"
COMBOS = [(t, p) for t in ("typing.direct", "typing.root", "typing.310") for p in (False, True)]


def behave(root):
    try:
        p = subprocess.run([common.PY, os.path.join(common.VERIF, "harness", "behave.py"), root, common.REPO + "/src"], stdout=subprocess.PIPE,
                           stderr=subprocess.PIPE, text=True, timeout=900, env=dict(os.environ, PYTHONDONTWRITEBYTECODE="1"))
        return json.loads(p.stdout)
    except Exception as ex:
        return {"import": "behave crashed: " + type(ex).__name__, "classes": {}, "errors": []}


def variant_case(args):
    work, name, protos = args
    out = []
    base = None
    for k, (typing_opt, pyd) in enumerate(COMBOS):
        opts = tuple([typing_opt] + (["pydantic_dataclasses"] if pyd else []))
        ev = protoc.compile_event(work, "%s_v%d" % (name, k), protos, opts, keep=True)
        root = os.path.join(work, "%s_v%d" % (name, k))
        b = behave(root) if ev["rc"] == 0 else {"import": "not generated", "classes": {}, "errors": []}
        shutil.rmtree(root, ignore_errors=True)
        ev.pop("stubs", None)
        ev["case"]["name"] = name
        cls = [{"key": kk, "bytes": v[0], "json": v[1], "which": v[2], "bytes2": v[3], "json2": v[4], "which2": v[5]} for kk, v in sorted(b["classes"].items())]
        # "field": the dataclass field the error message names (Field(name='float', ...)), if any -- transported for the KF predicate
        errs = [{"key": e[0], "msg": e[1][:160], "field": (re.search(r"Field\(name='(\w+)'", e[1]) or [None, ""])[1],
                 "placeholder": "'Placeholder' object" in e[1]} for e in b["errors"]]
        if k == 0:
            base = (b, cls, errs)
        beh = {"options": list(opts), "import": b["import"], "errors": errs, "classes": cls, "pydantic": pyd,
               "field_names": sorted({f["name"] for m in ev["prog"]["msgs"] for f in m["fields"]}) or ["<none>"],
               "default_import": base[0]["import"], "default_classes": base[1], "default_errors": base[2],
               "case": {"protos": protos, "options": list(opts), "name": name}}
        out.append((ev, beh))
    return out


def feature_programs():
    """one package per single feature (the typing compilers add their imports per construct used)"""
    hdr = 'syntax = "proto3";\npackage feat;\n'
    feats = {
        "map_only": "message M { map<string, int32> m = 1; }",
        "map_msg_only": "message V { int32 x = 1; } message M { map<int64, V> m = 1; }",
        "repeated_only": "message M { repeated string r = 1; }",
        "optional_only": "message M { optional int32 o = 1; }",
        "optional_msg_only": "message V { int32 x = 1; } message M { optional V o = 1; repeated V r = 2; }",
        "wrapper_only": 'import "google/protobuf/wrappers.proto";\nmessage M { google.protobuf.Int64Value w = 1; }',
        "timestamp_only": 'import "google/protobuf/timestamp.proto";\nimport "google/protobuf/duration.proto";\nmessage M { google.protobuf.Timestamp t = 1; google.protobuf.Duration d = 2; }',
        "optional_timestamp_only": 'import "google/protobuf/timestamp.proto";\nmessage M { optional google.protobuf.Timestamp t = 1; }',
        "optional_duration_only": 'import "google/protobuf/duration.proto";\nmessage M { optional google.protobuf.Duration d = 1; }',
        "oneof_timestamp_only": 'import "google/protobuf/timestamp.proto";\nmessage M { oneof g { google.protobuf.Timestamp t = 1; string s = 2; } }',
        "optional_enum_named_none": "enum AllOrNone { ALL_OR_NONE_UNSPECIFIED = 0; ALL_OR_NONE_ALL = 1; } message M { optional AllOrNone a = 1; oneof g { AllOrNone b = 2; int32 c = 3; } }",
        "builtin_named_after_use": "message M { repeated string names = 1; optional int32 n = 2; string str = 3; int32 int = 4; }",
        "user_entry_message": "message Order { message LinesEntry { string key = 1; int32 value = 2; string note = 3; } repeated LinesEntry lines = 2; map<string, int32> real = 3; }",
        "deprecated_in_oneof": "message M { oneof g { string email = 1; string fax = 2 [deprecated = true]; int32 n = 3; } int32 old = 4 [deprecated = true]; }",
        "enum_member_names": "enum Version { VERSION_UNSPECIFIED = 0; VERSION_1 = 1; VERSION_2FA = 2; VERSION = 3; version_x = 4; } enum HttpCode { HTTP_CODE_0 = 0; HTTP_CODE_404 = 404; } message M { Version v = 1; repeated HttpCode c = 2; }",
        "oneof_only": "message V { int32 x = 1; } enum E { E_Z = 0; E_N = -1; } message M { oneof g { int32 a = 1; V v = 2; E e = 3; string s = 4; } }",
        "enum_only": "enum E { E_Z = 0; E_A = 1; } message M { E e = 1; }",
        "scalars_only": "message M { int32 a = 1; string b = 2; bytes c = 3; double d = 4; bool e = 5; }",
        "unary_service": "message A { int32 x = 1; } service S { rpc U (A) returns (A); }",
        "server_stream_service": "message A { int32 x = 1; } service S { rpc U (A) returns (stream A); }",
        "client_stream_service": "message A { int32 x = 1; } service S { rpc U (stream A) returns (A); }",
        "bidi_service": "message A { int32 x = 1; } service S { rpc U (stream A) returns (stream A); }",
        "recursive": "message N { N child = 1; repeated N kids = 2; map<string, N> named = 3; optional N maybe = 4; }",
    }
    out = []
    for name, body in sorted(feats.items()):
        imports = "".join(l + "\n" for l in body.split("\n") if l.startswith("import "))
        rest = "\n".join(l for l in body.split("\n") if not l.startswith("import "))
        out.append((name, {"feat.proto": 'syntax = "proto3";\npackage feat;\n' + imports + rest + "\n"}))
        # the same feature in a sub-package referred to from its parent (imports of the parent must still work)
        out.append((name + "_sub", {"feat/sub.proto": 'syntax = "proto3";\npackage feat.sub;\n' + imports + rest + "\n",
                                     "feat.proto": 'syntax = "proto3";\npackage feat;\nimport "feat/sub.proto";\nmessage Top { feat.sub.%s x = 1; }\n'
                                     % ("M" if "message M " in rest else "A" if "message A " in rest else "N")}))
    # the same well-known / wrapper type used by several packages of one run, each of which uses nothing else that needs the
    # typing imports (what the compiler does for the first package must be done for the others too)
    for label, imp, ty in (("wrapper", "google/protobuf/wrappers.proto", "google.protobuf.Int64Value"), ("wrapper_str", "google/protobuf/wrappers.proto", "google.protobuf.StringValue"),
                           ("timestamp", "google/protobuf/timestamp.proto", "google.protobuf.Timestamp")):
        out.append(("%s_in_three_packages" % label, {
            "feat/a/a.proto": 'syntax = "proto3";\npackage feat.a;\nimport "%s";\nmessage A { %s w = 1; }\n' % (imp, ty),
            "feat/b/b.proto": 'syntax = "proto3";\npackage feat.b;\nimport "%s";\nmessage B { %s w = 1; }\n' % (imp, ty),
            "zz/c.proto": 'syntax = "proto3";\npackage zz;\nimport "%s";\nmessage C { %s w = 1; int32 n = 2; }\n' % (imp, ty)}))
    # one message name in two packages of one run, with different map fields (what is remembered per message name must not mix them up)
    out.append(("same_message_name_in_two_packages", {
        "demo/v1/c.proto": 'syntax = "proto3";\npackage demo.v1;\nmessage Config { map<string, string> labels = 1; map<int32, bool> flags = 2; message Inner { int32 x = 1; } map<string, Inner> inners = 3; }\n',
        "demo/v2/c.proto": 'syntax = "proto3";\npackage demo.v2;\nmessage Config { map<string, int64> labels = 1; map<string, double> limits = 2; message Inner { string y = 1; } map<int64, Inner> inners = 3; repeated string flags = 4; }\n'}))
    # ... and with the very same spelling of the annotations in both packages (List["Item"], Dict[str, "Item"], Optional["Item"])
    out.append(("same_type_names_in_two_packages", {
        "p/v1/a.proto": 'syntax = "proto3";\npackage p.v1;\nmessage Item { string a = 1; }\nenum Kind { KIND_ZERO = 0; KIND_ONE = 1; }\n'
                        "message Order { map<string, Item> items = 1; Item one = 2; repeated Item many = 3; map<int32, Kind> kinds = 4; optional Item gift = 5; repeated Kind accepts = 6; }\n",
        "p/v2/a.proto": 'syntax = "proto3";\npackage p.v2;\nmessage Item { int64 b = 1; bytes c = 2; }\nenum Kind { KIND_ZERO = 0; KIND_TWO = 2; KIND_THREE = 3; }\n'
                        "message Order { map<string, Item> items = 1; Item one = 2; repeated Item many = 3; map<int32, Kind> kinds = 4; optional Item gift = 5; repeated Kind accepts = 6; }\n"}))
    # two packages whose messages refer to each other (the files do not form a cycle, the packages do): whichever of them an
    # application imports first, both must come up
    out.append(("packages_referring_to_each_other", {
        "shop/orders/item.proto": 'syntax = "proto3";\npackage shop.orders;\nmessage Item { string sku = 1; int32 n = 2; }\n',
        "shop/users/user.proto": 'syntax = "proto3";\npackage shop.users;\nimport "shop/orders/item.proto";\nmessage User { string name = 1; repeated shop.orders.Item wishlist = 2; }\n',
        "shop/orders/order.proto": 'syntax = "proto3";\npackage shop.orders;\nimport "shop/users/user.proto";\nimport "shop/orders/item.proto";\n'
                                   'message Order { shop.users.User buyer = 1; repeated Item items = 2; map<string, shop.users.User> watchers = 3; }\n'}))
    return out


def run(ctx):
    quick = ctx.tier == "quick"
    ctx.rule = ("programs of the C03 generator (services with every streaming cardinality, optional fields, maps, oneofs, cross-package "
                "references, well-known types) x the 3 x 2 option combinations {typing.direct, typing.root, typing.310} x {dataclasses, "
                "pydantic}: each variant is compared with Plugin!Translate of the same schema (Trace_Plugin) and, for a deterministic "
                "instance of every message class, its bytes / JSON / oneof selection with those of the default configuration "
                "(Trace_Options); non-trivial = variant other than the default; distinct by (program, options)")
    ctx.assumptions = ["as C03; pydantic 2.x from /venv", "instances are built from field metadata with values derived from (class name, field number)"]
    protoc._tools(ctx.work)
    rnd = ctx.rnd
    n = 40 if quick else 700
    cases = [(ctx.work, "o%d" % k, gen_proto.gen_program(random.Random(rnd.getrandbits(48)), n_msgs=(1, 2), max_fields=6)) for k in range(n)]
    cases += [(ctx.work, "f_" + name, protos) for name, protos in feature_programs()]
    res = ctx.pmap(variant_case, cases, chunk=1)
    pl, beh = [], []
    for lst in res:
        for ev, b in lst:
            pl.append(ev)
            beh.append(b)
    pl, beh = protoc.drop_rejected(ctx, pl, beh)
    for b in beh:
        ctx.count_case((repr(sorted(b["case"]["protos"].items())), tuple(b["options"])), b["options"] != ["typing.direct"])
    ctx.sample({"options": beh[3]["options"], "classes": [c["key"] for c in beh[3]["classes"]][:6]})
    ctx.notes["programs"] = len(cases)
    ctx.notes["variants"] = len(pl)
    ctx.notes["disagreements_checked"] = len(pl) + len(beh)
    ctx.validate("Trace_Plugin", pl, shard=30, header=c03.plugin_header(pl))
    ctx.validate("Trace_Options", beh, shard=60, header=c03.plugin_header(pl))
