"""C10 Delimited streams read back intact; truncation never yields a partial message."""
import concurrent.futures as cf
import io
import os

import betterproto

from .. import absval as av
from .. import common, dyn, gen
from ..common import MachineryError
from ..dyn import F

LEVEL = "model_checking"

MC_CFG = """SPECIFICATION Spec
CONSTANTS
  MaxMsgs = %d
  Export = TRUE
INVARIANT ReadsBackSameSequence
INVARIANT CutNeverShortens
INVARIANT NoPhantomMessage
INVARIANT ExportDone
CHECK_DEADLOCK FALSE
"""


def I(n):
    return av.aint(n)


def Sv(s):
    return {"k": "str", "cp": av.cps(s)}


def schema():
    inner = [F("x", 1, "sint64"), F("s", 2, "string")]
    a = [F("a", 1, "int32"), F("s", 2, "string", "optional"), F("m", 3, "message", msg="Inner"), F("r", 4, "sint32", "repeated"),
         F("by", 5, "bytes")]
    types = {"Inner": inner, "A": a, "A_old": [a[0], a[3]], "B": [F("x", 1, "fixed64"), F("n", 2, "string", "repeated")],
             "E": [F("unused", 15, "int32")]}
    return {"types": types, "enums": {"E0": [["E0_ZERO", 0], ["E0_ONE", 1]]}}


READERS = {"A": ["A", "A_old"], "B": ["B", "B"], "E": ["E", "A_old"]}


def pool():
    s = schema()
    fa, fb, fe = gen.fresh(s, "A"), gen.fresh(s, "B"), gen.fresh(s, "E")
    msgs = [{"ty": "A", "val": fa},
            {"ty": "A", "val": {**fa, "a": I(5)}},
            {"ty": "A", "val": {**fa, "s": Sv(""), "m": {"k": "msg", "m": {"x": I(-1), "s": Sv("é")}}}},
            {"ty": "A", "val": {**fa, "a": I(-1), "r": {"k": "list", "xs": [I(1), I(-300)]}, "by": {"k": "bytes", "b": [8, 1, 18, 0]}}},
            {"ty": "B", "val": {**fb, "x": I(2**64 - 1), "n": {"k": "list", "xs": [Sv(""), Sv("ab")]}}},
            {"ty": "E", "val": fe},
            {"ty": "B", "val": fb}]
    return s, msgs


_W = {}


class _ReadOnly:
    """a stream with read(n) only (plus tell for the harness)"""
    def __init__(self, b):
        self._b, self._p = bytes(b), 0

    def read(self, n=-1):
        if n is None or n < 0:
            n = len(self._b) - self._p
        out = self._b[self._p:self._p + n]
        self._p += len(out)
        return out

    def tell(self):
        return self._p


def scenario_event(args):
    s, msgs, written, cut, rdr, withref = args
    if "bp" not in _W:
        _W["bp"] = dyn.make_bp(s)
        _W["ref"] = dyn.make_ref(s)
    C, R = _W["bp"], _W["ref"]
    ev = {"res": "ok", "msgs": [msgs[i - 1] for i in written], "frames": [], "cut": cut, "reads": [], "withref": withref,
          "ref_reads_bp": "ok", "bp_reads_ref": "ok", "ref_obs": [], "bp_of_ref_obs": [],
          "case": {"written": written, "cut": cut, "rdr": rdr}}
    try:
        stream = io.BytesIO()
        objs = []
        for i in written:
            m = dyn.conc_bp(s, C, msgs[i - 1]["ty"], msgs[i - 1]["val"])
            objs.append(m)
            before = stream.tell()
            m.dump(stream, betterproto.SIZE_DELIMITED)
            ev["frames"].append(list(stream.getvalue()[before:]))
        data = stream.getvalue()
        if cut < 0 or cut > len(data):
            cut = len(data)
        ev["cut"] = cut
        # the kinds of stream a caller may read from: in-memory, a reader with a small buffer, an object with read(n) only
        skind = (len(data) + cut + rdr) % 3
        rs = io.BytesIO(data[:cut]) if skind == 0 else io.BufferedReader(io.BytesIO(data[:cut]), buffer_size=5) if skind == 1 else _ReadOnly(data[:cut])
        ev["case"]["stream"] = ["BytesIO", "BufferedReader(5)", "read-only"][skind]
        for k in range(len(written) + 1):
            wty = msgs[written[min(k, len(written) - 1)] - 1]["ty"]
            rty = READERS[wty][rdr - 1]
            r = {"res": "ok", "ty": rty, "obs": gen.fresh(s, rty), "tell": -1, "exc": ""}
            try:
                got = C[rty]().load(rs, betterproto.SIZE_DELIMITED)
                r["obs"] = dyn.obs_decoded(s, got, rty)
                r["tell"] = rs.tell()
            except Exception as ex:
                r["res"], r["exc"] = "raise", type(ex).__name__
            ev["reads"].append(r)
            if r["res"] != "ok":
                break
        if withref:
            from google.protobuf import proto
            try:
                rs = io.BytesIO(data)
                for i in written:
                    ty = msgs[i - 1]["ty"]
                    got = proto.parse_length_prefixed(R[ty], rs)
                    ev["ref_obs"].append(dyn.obs_ref(s, got, ty) if got is not None else gen.fresh(s, ty))
            except Exception as ex:
                ev["ref_reads_bp"] = type(ex).__name__
                ev["ref_obs"] = [m["val"] for m in ev["msgs"]]
            try:
                out = io.BytesIO()
                for i in written:
                    proto.serialize_length_prefixed(dyn.fill_ref(s, R, msgs[i - 1]["ty"], msgs[i - 1]["val"]), out)
                rs = io.BytesIO(out.getvalue())
                for i in written:
                    ty = msgs[i - 1]["ty"]
                    ev["bp_of_ref_obs"].append(dyn.obs_bp(s, C[ty]().load(rs, betterproto.SIZE_DELIMITED), ty))
                if rs.tell() != len(out.getvalue()):
                    ev["bp_reads_ref"] = "did_not_consume_whole_stream"
            except Exception as ex:
                ev["bp_reads_ref"] = type(ex).__name__
                ev["bp_of_ref_obs"] = [m["val"] for m in ev["msgs"]]
        else:
            ev["ref_obs"] = [m["val"] for m in ev["msgs"]]
            ev["bp_of_ref_obs"] = [m["val"] for m in ev["msgs"]]
    except Exception as ex:
        ev["res"] = type(ex).__name__ + ":" + str(ex)[:60]
        ev["ref_obs"] = [m["val"] for m in ev["msgs"]]
        ev["bp_of_ref_obs"] = [m["val"] for m in ev["msgs"]]
    return ev


def run(ctx):
    quick = ctx.tier == "quick"
    ctx.rule = ("scenarios = (sequence of <= MaxMsgs messages from a pool of 7: empty, scalar, nested + empty optional, packed + bytes that look "
                "like fields, another type, a type whose fields the older reader does not know, empty of another type) x every cut point "
                "0..len(stream) x reader schema same/older, enumerated by TLC on spec/Stream.tla and replayed on io.BytesIO; plus seeded "
                "random sequences of random Wide-family values with random cuts; plus histories in which one object is written again and "
                "again while it is changed in place in between (frame prefix and read-back judged after every call); non-trivial = at least one non-empty message or a real cut")
    ctx.assumptions = ["google.protobuf.proto.serialize_length_prefixed / parse_length_prefixed is the reference framing",
                       "after a load raised, the stream position is unspecified and later loads are not judged"]
    s, msgs = pool()
    maxm = 2 if quick else 3
    cfg = common.write_cfg(os.path.join(ctx.work, "Stream.cfg"), MC_CFG % maxm)
    p = os.path.join(ctx.work, "pool.json")
    common.dump_json(p, {"schema": s, "msgs": msgs, "readers": READERS})
    r = common.tlc("Stream", cfg=cfg, workers=1, env={"POOL_FILE": p}, timeout=3000, heap="6g", coverage=False)
    ctx.checker_cmds.append("tlc -config Stream.cfg Stream (POOL_FILE=pool.json)")
    ctx.states += r.distinct
    ctx.transitions += r.generated
    ctx.mc_runs.append({"module": "Stream", "config": "MaxMsgs=%d" % maxm, "distinct_states": r.distinct, "states_generated": r.generated,
                        "depth": r.depth, "wall_s": round(r.wall, 1), "violated": r.violated})
    if r.violated:
        ctx.violations.append(("model:Stream:" + r.violated, {"counterexample": ctx._counterexample(r.out)}))
    elif not r.ok:
        raise MachineryError("Stream model checking failed:\n" + r.out[-3000:])
    scen = {}
    for v in r.printed():
        if isinstance(v, list) and v and v[0] == "CASE":
            scen[(tuple(v[1]), v[2], v[3])] = True
    cases = [(s, msgs, list(w), cut, rdr, cut >= 0 and rdr == 1 and k % 7 == 0) for k, (w, cut, rdr) in enumerate(sorted(scen))]
    # uncut scenarios always carry the reference cross-reading
    events = ctx.pmap(scenario_event, cases)
    for c, e in zip(cases, events):
        ctx.count_case((tuple(c[2]), c[3], c[4]), any(len(f) > 1 for f in e["frames"]) or e["cut"] < sum(len(f) for f in e["frames"]))
    if events:
        ctx.sample({"written": cases[len(cases) // 2][2], "cut": events[len(cases) // 2]["cut"], "frames": events[len(cases) // 2]["frames"],
                    "reads": [(r_["res"], r_["exc"], r_["tell"]) for r_ in events[len(cases) // 2]["reads"]]})
    ctx.notes["scenarios_from_tlc"] = len(cases)
    ctx.validate("Trace_Stream", events, header={"schema": s}, shard=3000)
    # random Wide-family streams
    from .. import msgev
    w = msgev.world()
    rnd = ctx.rnd
    tys = ["TImpl", "TOpt", "TRep", "TOne", "TMix", "TWkt", "TMapV"]
    rcases = []
    wmsgs_all = []
    for _ in range(300 if quick else 6000):
        n = rnd.randint(1, 4)
        wmsgs = [{"ty": t, "val": gen.rmsg(w["schema"], t, rnd)} for t in (rnd.choice(tys) for _ in range(n))]
        rcases.append((wmsgs, list(range(1, n + 1)), -1 if rnd.random() < .3 else rnd.randint(0, 60)))
    ev2 = ctx.pmap(wide_event, rcases)
    for c, e in zip(rcases, ev2):
        ctx.count_case((repr(c[0]), c[2]), True)
    ctx.validate("Trace_Stream", ev2, header={"schema": w["schema"]}, shard=300)
    # one object written repeatedly while it is changed in between (assignments, in-place container / sub-message mutations,
    # parses into it, copies): after every call its frame must carry the right prefix and read back, twice, as the current value
    from .. import hist
    hist.run_histories(ctx, ["TScal", "TScal", "TRep", "TMapV", "TMix", "TOne", "TOpt", "Node"], 300 if quick else 8000, 9, "inplace", judge_len=True)


def wide_event(args):
    from .. import msgev
    wmsgs, written, cut = args
    w = msgev.world()
    global READERS
    if "wide" not in _W:
        _W["wide"] = True
    saved = dict(_W)
    _W["bp"], _W["ref"] = w["bp"], msgev.ref_classes()
    for t in w["schema"]["types"]:
        READERS.setdefault(t, [t, t])
    try:
        return scenario_event((w["schema"], wmsgs, written, cut, 1, True))
    finally:
        _W.clear()
        _W.update(saved)
