"""C15 Timestamp/Duration <-> datetime/timedelta conversion is exact and normalised."""
import os
import time
import dataclasses
import typing
from datetime import datetime, timedelta, timezone

import betterproto

from .. import absval as av
from ..common import MachineryError

LEVEL = "model_checking"

MC_CFG = "SPECIFICATION Spec\nCONSTANTS\n  Thorough = %s\nINVARIANT T_Timestamp\nINVARIANT T_Duration\nINVARIANT T_Civil\nINVARIANT T_Anchors\nCHECK_DEADLOCK FALSE\n"


@dataclasses.dataclass(eq=False, repr=False)
class TsMsg(betterproto.Message):
    t: datetime = betterproto.message_field(1)


@dataclasses.dataclass(eq=False, repr=False)
class DurMsg(betterproto.Message):
    d: timedelta = betterproto.message_field(1)


# the same values as map values (an entry message per map field is derived from the field's types at run time); both classes
# are used by one process, one after the other
@dataclasses.dataclass(eq=False, repr=False)
class TsMap(betterproto.Message):
    m: "typing.Dict[str, datetime]" = betterproto.map_field(1, betterproto.TYPE_STRING, betterproto.TYPE_MESSAGE)


@dataclasses.dataclass(eq=False, repr=False)
class DurMap(betterproto.Message):
    m: "typing.Dict[str, timedelta]" = betterproto.map_field(1, betterproto.TYPE_STRING, betterproto.TYPE_MESSAGE)


class FoldZone(__import__("datetime").tzinfo):
    """a zone with one transition: UTC+2 before T, UTC+1 from T on, so the local hour before the transition is repeated
    (fold = 1 in its second pass).  One instance is shared by all datetimes: two datetimes with the same wall time but
    another fold compare and hash equal although they are an hour apart."""
    T = datetime(2023, 10, 29, 1, 0, 0)          # the transition, in UTC

    def utcoffset(self, dt):
        wall = dt.replace(tzinfo=None)
        if wall < self.T + timedelta(hours=1):
            return timedelta(hours=2)
        if wall >= self.T + timedelta(hours=2):
            return timedelta(hours=1)
        return timedelta(hours=2) if dt.fold == 0 else timedelta(hours=1)

    def dst(self, dt):
        return self.utcoffset(dt) - timedelta(hours=1)

    def tzname(self, dt):
        return "FOLD"

    def fromutc(self, dt):
        u = dt.replace(tzinfo=None)
        if u < self.T:
            return (u + timedelta(hours=2)).replace(tzinfo=self)
        r = (u + timedelta(hours=1)).replace(tzinfo=self)
        return r.replace(fold=1) if u < self.T + timedelta(hours=1) else r


FOLDZONE = FoldZone()
FOLD_T_US = 1698541200 * 10**6
EPOCH = datetime(1970, 1, 1, tzinfo=timezone.utc)
US = timedelta(microseconds=1)
TS_MIN, TS_MAX = -62135596800 * 10**6, 253402300799 * 10**6 + 999999
DUR_MAX = 315576000000 * 10**6


def time_event(args):
    kind, us, off = args
    from google.protobuf import duration_pb2, timestamp_pb2
    ev = {"kind": kind, "us": av.rawint(us), "off": off if off is not None else 9999, "res": "ok", "b": [], "back_us": av.rawint(0), "same_instant": True, "json": [48],
          "json_back_us": av.rawint(0), "ref_s": av.rawint(0), "ref_n": av.rawint(0), "ref_json": [48], "case": {"kind": kind, "us": us, "off": off}}
    try:
        if kind == "ts":
            utc = EPOCH + timedelta(microseconds=us)
            if off is None:
                val = utc                                # UTC-aware (betterproto's own default datetimes are aware)
            elif off == 7777:
                # a naive datetime (what utcnow() / offset-less parsing give) in a process whose local zone is not UTC.  Refusing
                # to encode it is fine (nothing is claimed then); if it is encoded, it denotes what the reference takes it for
                val = utc.replace(tzinfo=None)
                old_tz = os.environ.get("TZ")
                os.environ["TZ"] = "IST-5:30"
                time.tzset()
                try:
                    try:
                        bytes(TsMsg(t=val))
                    except Exception:
                        return None
                    r = timestamp_pb2.Timestamp()
                    r.FromDatetime(val)
                    ev["ref_s"], ev["ref_n"], ev["ref_json"] = av.rawint(r.seconds), av.rawint(r.nanos), av.cps(r.ToJsonString())
                    m = TsMsg(t=val)
                    b = bytes(m)
                    ev["b"] = list(b)
                    back = TsMsg().parse(b).t
                    ev["back_us"] = av.rawint(av.dt_us(back))
                    ev["same_instant"] = (back if back.tzinfo else back.replace(tzinfo=timezone.utc)) == utc
                    js = m.to_dict()["t"] if "t" in m.to_dict() else betterproto._Timestamp.timestamp_to_json(val)
                    ev["json"] = av.cps(js)
                    ev["json_back_us"] = av.rawint(av.dt_us(TsMsg().from_dict({"t": js}).t))
                    ev["off"] = 9999
                    return ev
                finally:
                    if old_tz is None:
                        os.environ.pop("TZ", None)
                    else:
                        os.environ["TZ"] = old_tz
                    time.tzset()
            elif off == 8888:
                val = utc.astimezone(FOLDZONE)           # a zone with a repeated hour (the fold attribute decides the instant)
            else:
                val = utc.astimezone(timezone(timedelta(minutes=off)))
            r = timestamp_pb2.Timestamp()
            r.FromDatetime(val)
            ev["ref_s"], ev["ref_n"], ev["ref_json"] = av.rawint(r.seconds), av.rawint(r.nanos), av.cps(r.ToJsonString())
            m = TsMsg(t=val)
            b = bytes(m)
            ev["b"] = list(b)
            back = TsMsg().parse(b).t
            ev["back_us"] = av.rawint(av.dt_us(back))
            ev["same_instant"] = (back if back.tzinfo else back.replace(tzinfo=timezone.utc)) == utc
            mb = TsMap().parse(bytes(TsMap(m={"k": val}))).m["k"]
            ev["same_instant"] = ev["same_instant"] and isinstance(mb, datetime) and (mb if mb.tzinfo else mb.replace(tzinfo=timezone.utc)) == utc
            js = m.to_dict()["t"] if "t" in m.to_dict() else betterproto._Timestamp.timestamp_to_json(val)
            ev["json"] = av.cps(js)
            ev["json_back_us"] = av.rawint(av.dt_us(TsMsg().from_dict({"t": js}).t))
        else:
            val = timedelta(microseconds=us)
            r = duration_pb2.Duration()
            r.FromTimedelta(val)
            ev["ref_s"], ev["ref_n"], ev["ref_json"] = av.rawint(r.seconds), av.rawint(r.nanos), av.cps(r.ToJsonString())
            m = DurMsg(d=val)
            b = bytes(m)
            ev["b"] = list(b)
            ev["back_us"] = av.rawint(av.td_us(DurMsg().parse(b).d))
            mb = DurMap().parse(bytes(DurMap(m={"k": val}))).m["k"]
            if not isinstance(mb, timedelta) or mb != val:
                raise AssertionError("as a map value the duration comes back as %r" % (mb,))
            js = m.to_dict()["d"] if "d" in m.to_dict() else betterproto._Duration.delta_to_json(val)
            ev["json"] = av.cps(js)
            ev["json_back_us"] = av.rawint(av.td_us(DurMsg().from_dict({"d": js}).d))
    except Exception as ex:
        ev["res"] = type(ex).__name__ + ":" + str(ex)[:60]
    return ev


def inputs(ctx, quick):
    rnd = ctx.rnd
    out = []
    fr = [0, 1, 999, 1000, 500000, 999000, 999999]
    for s in list(range(-3, 4)) + [59, 60, 86399, 86400, -86400, -86401, 951782400, 1709251199, 2**53 // 10**6, -(2**53 // 10**6)]:
        for f in fr:
            for sign in (1, -1):
                us = s * 10**6 + sign * f
                if TS_MIN <= us <= TS_MAX:
                    out.append(("ts", us, None))
                    out.append(("ts", us, rnd.choice([0, 60, -300, 330, 765, -720, 840, 1])))
                if abs(us) <= DUR_MAX:
                    out.append(("dur", us, None))
    for us in (TS_MIN, TS_MIN + 1, TS_MAX, TS_MAX - 1, 2**53, 2**53 + 1, -(2**53) - 1):
        out.append(("ts", us, None))
    for us in (0, 1, -1, 1577880000123456, 951782400000000, -86400000001, 2**53 + 1):
        out.append(("ts", us, 7777))
    # the same wall-clock time twice, an hour apart (fold 0 / fold 1), one after the other, around the transition of FoldZone
    for d in (-5400, -3600, -1800, -1, 0, 1, 1799, 3599):
        for f in (0, 250000):
            us = FOLD_T_US + d * 10**6 + f
            out += [("ts", us, 8888), ("ts", us + 3600 * 10**6, 8888), ("ts", us, 8888)]
    for us in (DUR_MAX, -DUR_MAX, DUR_MAX - 1, -DUR_MAX + 1, 2**53 + 1, -(2**53) - 1, 2**62, -(2**62), 10**17 + 1, -10**17 - 1):
        if abs(us) <= DUR_MAX:
            out.append(("dur", us, None))
    n = 3000 if quick else 100000
    for _ in range(n):
        c = rnd.random()
        us = rnd.randint(TS_MIN, TS_MAX) if c < .6 else rnd.randint(-10**7, 10**7) if c < .8 else rnd.randint(2**53 - 10**9, 2**53 + 10**15)
        off = None if rnd.random() < .4 else rnd.randint(-23 * 60 - 59, 23 * 60 + 59)
        # an aware datetime must itself stay within datetime's own range after the offset is applied
        if off is not None and not (TS_MIN + 86400 * 10**6 <= us <= TS_MAX - 86400 * 10**6):
            off = None
        out.append(("ts", us, off))
        c = rnd.random()
        lim = 10**7 if c < .3 else 10**13 if c < .5 else DUR_MAX
        us = rnd.randint(-lim, lim)
        if rnd.random() < .2:
            us = rnd.choice([1, -1]) * rnd.randint(2**53, 2**53 + 10**12)
        out.append(("dur", us, None))
    return out


def run(ctx):
    quick = ctx.tier == "quick"
    ctx.rule = ("microsecond counts: seconds from a boundary family (0, +-1..3, minute/day/leap-day boundaries, 2^53 us, range ends) x fractional "
                "parts {0,1,999,1000,500000,999000,999999} x both signs, naive and aware (fixed offsets) datetimes, plus seeded random values over "
                "the whole valid range incl. beyond 2^53 us; each stored in a one-field message, decoded back, rendered to JSON and read back; the "
                "reference's FromDatetime/FromTimedelta/ToJsonString for the same value; non-trivial = us != 0; distinct by (kind, us, offset)")
    ctx.assumptions = ["(dt - EPOCH) // timedelta(microseconds=1) is exact integer arithmetic (transport)",
                       "google.protobuf Timestamp/Duration helpers are the reference; they are checked against spec/TimeConv.tla on every event"]
    ctx.mc("MC_TimeConv", MC_CFG % ("FALSE" if quick else "TRUE"), name="MC_TimeConv", expect_actions=("PickSec", "PickFrac"))
    ins = inputs(ctx, quick)
    events = ctx.pmap(time_event, ins)
    ctx.notes["naive_datetimes_the_library_encodes"] = sum(1 for x, e in zip(ins, events) if x[2] == 7777 and e is not None)
    ins = [x for x, e in zip(ins, events) if e is not None]
    events = [e for e in events if e is not None]
    for x in ins:
        ctx.count_case(x, x[1] != 0)
    ctx.sample({"input": ins[9], "bytes": events[9]["b"], "json": av.uncps(events[9]["json"]), "ref_json": av.uncps(events[9]["ref_json"])})
    ctx.sample({"input": ins[-1], "bytes": events[-1]["b"], "json": av.uncps(events[-1]["json"])})
    ctx.validate("Trace_Time", events, shard=6000)
    bad = [(cl, c) for cl, c in ctx.violations if cl.startswith("ref_")]
    if bad:
        raise MachineryError("reference disagrees with spec/TimeConv.tla: %s %r" % (bad[0][0], bad[0][1].get("case")))


def redrive(ev):
    c = ev["case"]
    return time_event((c["kind"], c["us"], c["off"]))
