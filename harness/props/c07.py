"""C07 Oneof exclusivity holds after any history of operations."""
from .. import hist

LEVEL = "model_checking"


def run(ctx):
    quick = ctx.tier == "quick"
    from .. import mo
    mo.model_check(ctx, ['OneofExclusive', 'WireExclusive'], [], quick)
    mo.replay(ctx, 160 if quick else 4000)
    ctx.rule = ("histories of {construct with kwargs, set member to default/non-default, set non-oneof field, nested assignment, parse of "
                "encoded random messages (0..n members), from_dict class/instance form, copy, deepcopy, pickle, observers} on messages with "
                "several oneof groups (scalar, string, bytes, enum, message, Timestamp members; members declared plainly and the way the plugin's pydantic flavour declares them; from_dict documents also with nulls for absent fields); after every call the public observation "
                "(which_one_of, AttributeError on other members, members in the encoding and in to_dict) is judged; non-trivial = >= 2 ops")
    hist.run_histories(ctx, ["TOne", "TOneP", "TMix"], 1500 if quick else 30000, 14, "oneof")


def redrive(ev):
    if "ops" in ev.get("case", {}):
        return hist.history_event((ev["case"]["ty"], ev["case"]["ops"], False))
    return None
