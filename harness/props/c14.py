"""C14 Observers are pure; copy, deepcopy and pickle are faithful and independent."""
from .. import hist

LEVEL = "model_checking"


def run(ctx):
    quick = ctx.tier == "quick"
    from .. import mo
    mo.model_check(ctx, [], ['BytesPure', 'ObserversPure', 'DeepCopyFaithful', 'CopyFaithful', 'PickleFaithful'], quick)
    mo.replay(ctx, 160 if quick else 4000)
    ctx.rule = ("histories mixing mutators (construct, set, nested assignment, parse incl. unknown fields, from_dict) with observer calls "
                "(attribute reads incl. lazily defaulted nested messages, bytes, len, ==, bool, repr, to_dict, to_json, to_pydict) and with "
                "copy / deepcopy / pickle (the history continues on the copy) and independence probes (a deep copy and an unpickled copy are "
                "mutated everywhere, the original is observed again) on all Wide-family types; after every call the full public observation "
                "(values, presence, selection, encoding, unknown fields) must equal the abstract state; non-trivial = >= 2 ops")
    hist.run_histories(ctx, ["TMix", "TOne", "TOpt", "TOneP", "TScal", "TRep", "TMapV", "TMapK", "TWkt", "TImpl", "Node"], 1500 if quick else 30000, 12, "observers")


def redrive(ev):
    if "ops" in ev.get("case", {}):
        return hist.history_event((ev["case"]["ty"], ev["case"]["ops"], False))
    return None
