"""C14 Observers are pure; copy, deepcopy and pickle are faithful and independent."""
from .. import hist

LEVEL = "model_checking"


def run(ctx):
    quick = ctx.tier == "quick"
    from .. import mo
    mo.model_check(ctx, [], ['BytesPure', 'ObserversPure', 'DeepCopyFaithful', 'CopyFaithful', 'PickleFaithful'], quick)
    mo.replay(ctx, 160 if quick else 4000)
    ctx.rule = ("histories mixing mutators (construct, set, nested assignment, parse incl. unknown fields, from_dict) with observer calls "
                "(attribute reads incl. lazily defaulted nested messages, bytes, len, ==, bool, repr, to_dict, to_json, to_pydict) and with "
                "copy / deepcopy / pickle (the history continues on the copy) and independence probes (a deep copy and an unpickled copy are "
                "mutated everywhere, the original is observed again) on all Wide-family types; after every call the full public observation "
                "(values, presence, selection, encoding, unknown fields) must equal the abstract state; plus every observer on the bundled Struct / "
                "Value / ListValue classes holding values decoded from the reference's bytes (encoding before = after, equal to an untouched twin); "
                "non-trivial = >= 2 ops")
    # the bundled well-known types with hand-written conversions, holding real Value messages
    wcases = [(k, o, w) for k in range(len(STRUCT_VALUES)) for o in OBSERVERS for w in ("struct", "value", "list")]
    wev = ctx.pmap(wkt_event, wcases)
    for c in wcases:
        ctx.count_case(("wkt",) + c, True)
    ctx.validate("Trace_Pure", wev, shard=500)
    hist.run_histories(ctx, ["TMix", "TOne", "TOpt", "TOneP", "TScal", "TRep", "TMapV", "TMapK", "TWkt", "TImpl", "Node"], 1500 if quick else 30000, 12, "observers")


STRUCT_VALUES = [{}, {"a": 1.5}, {"s": "x", "b": True, "n": None}, {"l": [1.0, "two", False, None, [3.0], {"k": "v"}]},
                 {"nested": {"deep": {"deeper": [{"x": 1.0}, {}]}}, "e": ""}, {"": 0.0, "k": -1e300}]
OBSERVERS = ["to_dict", "to_json", "to_pydict", "bytes", "len", "repr", "eq", "bool", "copy", "deepcopy", "pickle", "to_dict_twice"]


def wkt_event(args):
    """bundled well-known types with hand-written conversions (Struct, Value, ListValue): the value is built by the reference,
    decoded by betterproto's class (so that it holds real Value messages), and one observer is called on it"""
    import copy
    import pickle
    k, observer, wrap = args
    ev = {"observer": observer, "setup": "ok", "res": "ok", "before": [], "after": [], "after_res": "ok", "eq_twin": True, "copy_eq": True, "copy_bytes": [],
          "case": {"value": STRUCT_VALUES[k], "observer": observer, "wrapped": wrap}}
    try:
        from google.protobuf import struct_pb2
        import betterproto.lib.google.protobuf as bpw
        r = struct_pb2.Struct()
        r.update(STRUCT_VALUES[k])
        if wrap == "value":
            rv = struct_pb2.Value(struct_value=r)
            b0, cls = rv.SerializeToString(), bpw.Value
        elif wrap == "list":
            rl = struct_pb2.ListValue()
            rl.values.add().struct_value.CopyFrom(r)
            rl.values.add().number_value = 2.5
            b0, cls = rl.SerializeToString(), bpw.ListValue
        else:
            b0, cls = r.SerializeToString(), bpw.Struct
        m, twin = cls().parse(b0), cls().parse(b0)
        ev["before"] = list(bytes(m))
    except Exception as ex:
        ev["setup"] = type(ex).__name__ + ":" + str(ex)[:60]
        return ev
    try:
        if observer == "to_dict":
            m.to_dict()
        elif observer == "to_dict_twice":
            m.to_dict()
            m.to_dict()
        elif observer == "to_json":
            m.to_json()
        elif observer == "to_pydict":
            m.to_pydict()
        elif observer == "bytes":
            bytes(m)
        elif observer == "len":
            len(m)
        elif observer == "repr":
            repr(m)
        elif observer == "eq":
            m == twin
        elif observer == "bool":
            bool(m)
        else:
            c = copy.copy(m) if observer == "copy" else copy.deepcopy(m) if observer == "deepcopy" else pickle.loads(pickle.dumps(m))
            ev["copy_eq"] = bool(c == m)
            ev["copy_bytes"] = list(bytes(c))
    except Exception as ex:
        ev["res"] = type(ex).__name__ + ":" + str(ex)[:60]
    try:
        ev["after"] = list(bytes(m))
        ev["eq_twin"] = bool(m == twin)
    except Exception as ex:
        ev["after_res"] = type(ex).__name__
    return ev


def redrive(ev):
    if "observer" in ev.get("case", {}):
        c = ev["case"]
        return wkt_event((STRUCT_VALUES.index(c["value"]), c["observer"], c["wrapped"]))
    if "ops" in ev.get("case", {}):
        return hist.history_event((ev["case"]["ty"], ev["case"]["ops"], False))
    return None
