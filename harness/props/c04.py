"""C04 JSON / dict round trip: from_dict(to_dict(m)) and from_json(to_json(m)) give m."""
import json

import betterproto

from .. import dyn, jsontree, msgev
from . import c05

LEVEL = "model_checking"

VARIANTS = [(casing, path, form) for casing in ("CAMEL", "SNAKE") for path in ("dict", "json") for form in ("cls", "inst")]
# the same documents with every absent field (unselected oneof members included) spelled out as null: null means absent
NULL_VARIANTS = [(casing, path + "+nulls", form) for casing, path, form in VARIANTS]


def rtjson_event(args):
    case, (casing, path, form) = args
    w = msgev.world()
    schema, C = w["schema"], msgev.classes_for(case)
    ty, val = case["ty"], case["val"]
    ev = {"op": "rtjson", "ty": ty, "val": val, "casing": casing, "path": path, "form": form, "res": "ok", "dumps": "ok", "obs": val, "eq": False,
          "samebytes": False, "b_back": [], "b_orig": [], "tree": {"t": "obj", "kv": []}, "case": {"ty": ty, "tag": case.get("tag", ""), "variant": [casing, path, form], "world": case.get("world", "dyn")}}
    try:
        m = dyn.conc_bp(schema, C, ty, val)
        cas = getattr(betterproto.Casing, casing)
        d = m.to_dict(casing=cas)
        try:
            text = json.dumps(d)
        except Exception as ex:
            ev["dumps"] = type(ex).__name__ + ":" + str(ex)[:60]
            return ev
        nulls = path.endswith("+nulls")
        path = path.split("+")[0]
        if nulls:
            d = dict(d)
            for f in schema["types"][ty]:
                key = cas(dyn.py(f)).rstrip("_")
                if key not in d:
                    d[key] = None
        ev["tree"] = jsontree.from_py(d)
        if path == "json":
            text = json.dumps(d) if nulls else m.to_json(casing=cas)
            back = C[ty]().from_json(text) if form == "inst" else C[ty].from_dict(json.loads(text))
        else:
            back = C[ty]().from_dict(d) if form == "inst" else C[ty].from_dict(d)
        ev["obs"] = dyn.obs_bp(schema, back, ty)
        ev["eq"] = bool(back == m)
        ev["samebytes"] = bytes(back) == bytes(m)
        if not ev["samebytes"]:
            ev["b_back"], ev["b_orig"] = list(bytes(back)), list(bytes(m))
    except Exception as ex:
        ev["res"] = type(ex).__name__ + ":" + str(ex)[:70]
    return ev


def run(ctx):
    quick = ctx.tier == "quick"
    ctx.rule = ("Wide-family values (as C01/C05) x casing {CAMEL, SNAKE} x path {dict, JSON text} x from_dict form {classmethod, instance} (+ the same documents with every absent field written as null): "
                "to_dict must be json.dumps-able and denote the value under PJson.tla, the reconstructed message must be observed equal to the "
                "original value (presence included), == and identical bytes; non-trivial = differs from the fresh message")
    ctx.assumptions = ["as C05"]
    c05.model_check(ctx, quick)
    cs = c05.cases(ctx, quick)
    rnd = ctx.rnd
    work = []
    for k, c in enumerate(cs):
        vs = VARIANTS if (not quick or k % 9 == 0) else [VARIANTS[k % 8], VARIANTS[(k * 3 + 1) % 8]]
        for v in vs:
            work.append((c, v))
        if k % 3 == 0:
            work.append((c, NULL_VARIANTS[k % 8]))
    for c, v in work:
        ctx.count_case((c["ty"], repr(c["val"]), v), msgev.nontrivial(c))
    events = ctx.pmap(rtjson_event, work)
    ctx.sample({"type": events[50]["ty"], "variant": events[50]["case"]["variant"], "value": work[50][0]["val"]})
    hdr = {"schema": jsontree.schema_for_tla(msgev.world()["schema"])}
    ctx.validate("Trace_Json", events, header=hdr, shard=1500, weight=lambda e: 1 + len(str(e["tree"])) // 2000)
    # values reached through histories (objects filled / changed in place, parses, copies): after every call to_dict (both casings)
    # and to_json are read back by from_dict / from_json as the value the object then has
    from .. import hist
    hist.run_histories(ctx, ["TScal", "TRep", "TMapV", "TMix", "TOne", "TOpt", "Node", "TWkt"], 400 if quick else 12000, 8, "inplace", judge_dict=True)


def redrive(ev):
    if ev.get("case", {}).get("world") == "gen":
        msgev.gen_world()
    return rtjson_event(({"ty": ev["ty"], "val": ev["val"], "tag": ev.get("case", {}).get("tag", ""), "world": ev.get("case", {}).get("world", "dyn")}, tuple(ev["case"]["variant"])))
