"""C09 len(m) equals the encoded size and dump() writes exactly bytes(m)."""
import io

import betterproto

from .. import dyn, gen, hist, msgev
from . import c02

LEVEL = "model_checking"


def parsed_len_event(args):
    """a message obtained by *decoding* (possibly with unknown fields / shadowed occurrences): len, dump, delimited"""
    schema, ty, val, b, tag = args[:5]
    w = c02.dec_world(schema)
    ev = {"op": "len", "ty": ty, "res": "ok", "b": [], "len": -1, "dump": [], "sts": [], "delim": [], "case": {"ty": ty, "tag": tag, "src": list(b)}}
    try:
        m = w["bp"][ty]().parse(bytes(b))
        ev["b"] = list(bytes(m))
        ev["len"] = len(m)
        s = io.BytesIO()
        m.dump(s)
        ev["dump"] = list(s.getvalue())
        s = io.BytesIO()
        m.dump(s, betterproto.SIZE_DELIMITED)
        ev["delim"] = list(s.getvalue())
        ev["sts"] = list(m.SerializeToString())
    except Exception as ex:
        ev["res"] = type(ex).__name__ + ":" + str(ex)[:60]
    return ev


# values of another Python type than the field's annotation: where the library is willing to encode such a message at all, the
# sizes it reports must be those of what it writes (a value it refuses to encode is no message, and nothing is claimed)
LOOSE = {"bytes": ["na\u00efve caf\u00e9 \u2013", "abc", bytearray(b"\x00\xff"), memoryview(b"xyz")], "string": [b"abc", b"\xc3\xa9"],
         "int32": [True, 3.0, "7"], "uint64": [True, 2.0], "sint64": [False, -2.0], "double": [3, True, "1.5"], "float": [1, False],
         "bool": [1, 0, 2, "x", ""], "fixed32": [True, 5.0], "sfixed64": [True, -1.0], "enum": [True, 2.0]}


def loose_len_event(args):
    ty, fname, pos, v = args
    w = msgev.world()
    C = msgev.classes_for({"world": "dyn"})
    f = next(x for x in w["schema"]["types"][ty] if x["name"] == fname)
    ev = {"op": "len", "ty": ty, "res": "ok", "b": [], "len": -1, "dump": [], "sts": [], "delim": [], "case": {"ty": ty, "field": fname, "value": repr(v), "position": pos}}
    try:
        m = C[ty]()
        setattr(m, dyn.py(f), [v] if f["card"] == "repeated" else {"k": v} if f["card"] == "map" else v)
        ev["b"] = list(bytes(m))
    except Exception:
        return None                      # not encodable: no message, no claim
    try:
        ev["len"] = len(m)
        s = io.BytesIO()
        m.dump(s)
        ev["dump"] = list(s.getvalue())
        s = io.BytesIO()
        m.dump(s, betterproto.SIZE_DELIMITED)
        ev["delim"] = list(s.getvalue())
        ev["sts"] = list(m.SerializeToString())
    except Exception as ex:
        ev["res"] = type(ex).__name__ + ":" + str(ex)[:60]
    return ev


def run(ctx):
    quick = ctx.tier == "quick"
    ctx.rule = ("len/bytes/dump/dump(SIZE_DELIMITED)/SerializeToString on (i) constructed Wide-family messages: every field x boundary value x "
                "presence mode (incl. empty-but-present optional / oneof / nested members), pairs, random, and length-delimited payloads (strings, bytes, nested, packed, map entries, wrappers, 1/2/3-byte keys) swept across the 2**7k-1 length-prefix boundaries; (ii) messages obtained by decoding "
                "the LegalEnc encodings (unknown fields, shadowed members, padded varints); (iii) histories of constructions, assignments, in-place "
                "container / sub-message mutations, parses and copies with len read before bytes after every call; non-trivial = non-empty encoding")
    ctx.assumptions = ["the size theorem SpecSize = Len(SpecEncode) is model-checked on the spec (MC_Codec.SizeAgrees); the implementation's "
                       "len() is compared with the length of its own bytes(), as the statement says"]
    w = msgev.world()
    schema = w["schema"]
    pool = [c for c in msgev.boundary_cases(schema) if not quick or hash(repr(c["val"])) % 4 == 0]
    c02.run_legalenc(ctx, schema, pool, (0, 0, 0, 6, 0), False, invariants=("SizeAgrees", "CanonicalRoundTrip"))
    cs = msgev.boundary_cases(schema)
    for ty in ("TMix", "TOne", "TOpt", "TWkt"):
        cs += msgev.pair_cases(schema, ty, ctx.rnd, 60 if quick else 600)
    cs += msgev.random_cases(schema, ctx.rnd, 4000 if quick else 80000)
    # payload / container lengths sweeping across the 1->2 and 2->3 byte length-prefix boundaries (and 3->4 in thorough)
    cs += msgev.size_boundary_cases(schema, (127, 16383) if quick else (127, 16383, 2097151), (-8, 3) if quick else (-12, 4))
    msgev.gen_world()
    cs += msgev.as_generated([c for k, c in enumerate(msgev.boundary_cases(schema)) if not quick or k % 3 == 0])
    events = ctx.pmap(msgev.rt_event, cs)
    for e, c in zip(events, cs):
        e["op"] = "len"
        ctx.count_case((c["ty"], repr(c["val"])), len(e["b"]) > 0)
    small, msgs = c02.pool(ctx, quick)
    lcases = c02.run_legalenc(ctx, small, msgs, (1, 1, 1, 2, 2) if quick else (2, 1, 2, 3, 2), True, 1500 if quick else 6000)
    if len(lcases) > (60000 if quick else 400000):          # (a seeded sample of the exported encodings is replayed)
        ctx.rnd.shuffle(lcases)
        lcases = lcases[:60000 if quick else 400000]
    ev2 = ctx.pmap(parsed_len_event, lcases)
    for e in ev2:
        ctx.count_case(("parsed", bytes(e["case"]["src"])), len(e["b"]) > 0)
    ctx.sample({"constructed": {"ty": events[33]["ty"], "val": cs[33]["val"], "len": events[33]["len"], "bytes": events[33]["b"]}})
    ctx.sample({"decoded_with_unknown": {"src": ev2[len(ev2) // 2]["case"]["src"], "len": ev2[len(ev2) // 2]["len"]}})
    loose = []
    for ty in ("TImpl", "TOpt", "TRep", "TOne", "TMapV"):
        for f in schema["types"][ty]:
            kind = f["vkind"] if f["card"] == "map" else f["kind"]
            for v in LOOSE.get(kind, []):
                loose.append((ty, f["name"], f["card"], v))
    lev = [e for e in (loose_len_event(a) for a in loose) if e is not None]
    ctx.notes["loosely_typed_values_the_library_encodes"] = "%d of %d" % (len(lev), len(loose))
    for e in lev:
        ctx.count_case(("loose", repr(e["case"])), len(e["b"]) > 0)
    events += lev
    slim = [{k: v for k, v in e.items() if k not in ("val", "obs", "b2")} for e in events]
    ctx.validate("Trace_Codec", slim, header={"schema": schema}, shard=4000)
    # (iii) along histories: objects filled / changed in place (list.append, map[key] = v, m.sub.x = v on lazily created
    # containers), interleaved with len / bytes calls -- after every call len (read first), dump and the delimited dump
    # must agree with bytes (a size computed earlier, or presence flags the in-place change never touched, must not matter)
    hist.run_histories(ctx, ["TScal", "TScal", "TRep", "TMapV", "TMapK", "TMix", "TOne", "TWkt", "Node", "TOpt"], 600 if quick else 20000, 10, "inplace", judge_len=True)
    ctx.validate("Trace_Codec", ev2, header={"schema": small}, shard=6000)


def redrive(ev):
    if "val" not in ev and "src" not in ev.get("case", {}):
        return None
    if "src" in ev.get("case", {}):
        small, _ = c02.pool(type("X", (), {"rnd": __import__("random").Random(0)})(), True)
        return parsed_len_event((small, ev["ty"], None, bytes(ev["case"]["src"]), ev["case"].get("tag", "")))
    return None
