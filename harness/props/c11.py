"""C11 Generated gRPC stub and server base agree: calls reach the right handler intact."""
import itertools
import json
import os
import random
import shutil
import subprocess

from .. import common, gen_proto, protoc

LEVEL = "translation_validation"

MC_CFG = "SPECIFICATION Spec\nINVARIANT TypeOK\nINVARIANT NoAnswerWithoutHandler\nINVARIANT RaiseBeforeUnaryAnswer\nPROPERTY EventuallyTerminal\nCHECK_DEADLOCK FALSE\n"

FIXED = {
    "svc/api.proto": 'syntax = "proto3";\npackage svc;\nimport "svc/types/t.proto";\nimport "google/protobuf/empty.proto";\nimport "google/protobuf/wrappers.proto";\nimport "google/protobuf/timestamp.proto";\nimport "google/protobuf/duration.proto";\n'
                     "message Req { int32 id = 1; string q = 2; }\nmessage Rep { repeated string items = 1; svc.types.Kind kind = 2; }\n"
                     "service Search {\n  rpc Find (Req) returns (Rep);\n  rpc list_all (Req) returns (stream Rep);\n"
                     "  rpc UploadMany (stream svc.types.Chunk) returns (Rep);\n  rpc chatStream (stream Req) returns (stream svc.types.Chunk);\n"
                     "  rpc Ping (google.protobuf.Empty) returns (google.protobuf.Empty);\n  rpc GetHTTPStatus (svc.types.Chunk) returns (google.protobuf.StringValue);\n"
                     "  rpc X (Req) returns (Req);\n  rpc Now (google.protobuf.Empty) returns (google.protobuf.Timestamp);\n"
                     "  rpc Wait (google.protobuf.Duration) returns (stream google.protobuf.Timestamp);\n}\n"
                     "service Second { rpc Find (Rep) returns (Req); rpc do_it_2 (stream Rep) returns (stream Rep); }\n",
    "svc/types/t.proto": 'syntax = "proto3";\npackage svc.types;\nenum Kind { KIND_UNKNOWN = 0; KIND_A = 1; }\nmessage Chunk { bytes data = 1; int64 offset = 2; }\n',
}
# (in units of 1000 s; every order between call-level and stub-level values occurs, so that dropping either side shows)
KW_VALUES = {"timeout": 5000.0, "deadline": 6000.0, "metadata": "stub"}
CALL_VALUES = {"timeout": [2000.0, 8000.0], "deadline": [4000.0, 9000.0], "metadata": ["call"]}
STATUSES = ["NOT_FOUND", "PERMISSION_DENIED", "UNAVAILABLE", "ALREADY_EXISTS"]


def plans_for(prog, rnd, quick):
    """one plan (stub-level kwargs + calls) per combination of stub-level settings"""
    calls = []
    for sv in prog["services"]:
        for me in sv["methods"]:
            card = ("STREAM_" if me["cs"] else "UNARY_") + ("STREAM" if me["ss"] else "UNARY")
            base = {"mod": sv["pkg"], "svc": sv["name"], "method": me["name"], "card": card,
                    "route": "/" + (sv["pkg"] + "." if sv["pkg"] else "") + sv["name"] + "/" + me["name"]}
            for mode in ("ok", "raise", "default"):
                for nreq in ((0, 1, 2) if me["cs"] else (1,)):
                    for nresp in ((0, 1, 2) if me["ss"] else (1,)):
                        if quick and rnd.random() < .35 and mode != "default":
                            continue
                        calls.append(dict(base, mode=mode, nreq=nreq, nresp=nresp, status=rnd.choice(STATUSES), async_source=rnd.random() < .4,
                                          default_last=rnd.random() < .3,
                                          reuse=me["cs"] and me["ss"] and mode == "ok" and nreq > 0 and rnd.random() < .4,
                                          handler_kind=rnd.choice(["agen", "agen", "channel", "aiter"]) if me["ss"] and mode == "ok" else "agen"))
    plans = []
    stub_combos = list(itertools.product([False, True], repeat=3))
    call_combos = list(itertools.product([False, True], repeat=3))
    for sc in (stub_combos if not quick else rnd.sample(stub_combos, 3) + [(True, True, True)]):
        stubkw = {k: (KW_VALUES[k] if on else None) for k, on in zip(("timeout", "deadline", "metadata"), sc)}
        cs = []
        for c in calls:
            cc = rnd.choice(call_combos)
            kw = {k: (rnd.choice(CALL_VALUES[k]) if on else None) for k, on in zip(("timeout", "deadline", "metadata"), cc)}
            # explicit but *falsy* per-call values still take precedence: no metadata at all ({} / [] / ()), a zero timeout
            x = rnd.random()
            if x < .2:
                kw["metadata"] = rnd.choice(["<empty-dict>", "<empty-list>", "<empty-tuple>"])
            elif x < .3 and c["mode"] == "ok":
                kw["timeout"] = 0.0
                kw["tzero"] = True
            cs.append(dict(c, kw=kw))
        plans.append({"stub": stubkw, "calls": cs})
    return plans


def run_program(args):
    work, name, protos = args
    from betterproto.casing import safe_snake_case
    r = protoc.generate(work, name, protos)
    events = []
    if protoc.front_end_rejected(r):
        return []                  # not a valid schema (generator noise): nothing to call
    if r["rc"] != 0:
        return [{"imp": "plugin failed: " + r["err"][-200:], "call": _nocall(), "rec": _norec(), "case": {"protos": protos}}]
    prog = protoc.descriptor_program(r["dset"])
    rnd = random.Random(hash(name) & 0xFFFF)
    quick = "QUICK" in os.environ.get("VERIF_C11_MODE", "QUICK")
    for k, plan in enumerate(plans_for(prog, rnd, quick)):
        pp = os.path.join(r["root"], "plan%d.json" % k)
        with open(pp, "w") as f:
            json.dump(plan, f)
        try:
            p = subprocess.run([common.PY, os.path.join(common.VERIF, "harness", "grpc_run.py"), r["root"], common.REPO + "/src", pp],
                               stdout=subprocess.PIPE, stderr=subprocess.PIPE, text=True, timeout=3000, env=dict(os.environ, PYTHONDONTWRITEBYTECODE="1"))
            res = json.loads(p.stdout)
        except Exception as ex:
            res = {"import": "runner crashed: " + type(ex).__name__, "calls": []}
        if res["import"] != "ok" or len(res["calls"]) != len(plan["calls"]):
            events.append({"imp": res["import"] if res["import"] != "ok" else "runner returned %d of %d calls" % (len(res["calls"]), len(plan["calls"])),
                           "call": _nocall(), "rec": _norec(), "case": {"protos": protos, "plan": plan}})
            continue
        for c, rec in zip(plan["calls"], res["calls"]):
            def enc(kw):
                md = kw["metadata"] or ""
                return {"timeout": int(kw["timeout"] // 1000) if kw["timeout"] else 0, "deadline": int(kw["deadline"] // 1000) if kw["deadline"] else 0,
                        "metadata": "<empty>" if md.startswith("<empty") else md, "tzero": bool(kw.get("tzero"))}
            call = {"route": c["route"], "card": c["card"], "mode": c["mode"], "nreq": c["nreq"], "nresp": c["nresp"], "status": c["status"],
                    "pyname": safe_snake_case(c["method"]), "kw": enc(c["kw"]), "stubkw": enc(plan["stub"])}
            events.append({"imp": "ok", "call": call, "rec": rec, "case": {"protos": protos, "stub": plan["stub"], "call": c}})
    shutil.rmtree(r["root"], ignore_errors=True)
    return events


def _nocall():
    return {"route": "", "card": "UNARY_UNARY", "mode": "ok", "nreq": 1, "nresp": 1, "status": "", "pyname": "", "kw": {"timeout": 0, "deadline": 0, "metadata": "", "tzero": False},
            "stubkw": {"timeout": 0, "deadline": 0, "metadata": "", "tzero": False}}


def _norec():
    return {"route": "", "ran": [], "seen_reqs": [], "sent_resps": [], "meta": "", "deadline": -1, "hit": [], "res": "exception", "status": "", "got": [],
            "sent": [], "exc": "not run"}


def run(ctx):
    quick = ctx.tier == "quick"
    os.environ["VERIF_C11_MODE"] = "QUICK" if quick else "FULL"
    ctx.rule = ("generated services (a fixed two-service program with all four cardinalities, re-cased method names, cross-package and "
                "google.protobuf request / response types, two services sharing a method name; plus services of the C03 program generator): "
                "every method x handler {overridden ok, overridden raising GRPCError(status), not overridden} x request stream length 0..2 x "
                "response stream length 0..2 x sync / async request source x (bidi) the request source being a long-lived AsyncChannel that an earlier, cancelled call had been reading from x server-streaming handler written as an async generator / returning an AsyncChannel fed by a producer task / returning a plain async-iterator object x stub-level and call-level timeout / deadline / metadata in "
                "{None, set} and call-level explicit empty metadata ({} / [] / ()) / zero timeout; each call is made in-process over grpclib.testing.ChannelFor; non-trivial = streaming or non-default kwargs")
    ctx.assumptions = ["grpclib 0.4.9 in-process channel (grpclib.testing.ChannelFor) as transport",
                       "the deadline seen by the server is compared in units of 1000 s (call 2000|8000 / 4000|9000 s, stub 5000 / 6000 s), so timing jitter cannot matter"]
    ctx.mc("Grpc", MC_CFG, name="Grpc", coverage=True, expect_actions=("Issue", "Invoke", "Deliver", "Answer", "Finish"))
    protoc._tools(ctx.work)
    rnd = ctx.rnd
    cases = [(ctx.work, "fixed", FIXED)]
    n = 6 if quick else 120
    k = 0
    tries = 0
    while k < n and tries < 50 * n:
        tries += 1
        protos = gen_proto.gen_program(random.Random(rnd.getrandbits(48)), n_msgs=(1, 2), max_fields=4)
        if any("service " in t for t in protos.values()):
            cases.append((ctx.work, "s%d" % k, protos))
            k += 1
    events = []
    for lst in ctx.pmap(run_program, cases, chunk=1):
        events += lst
    for e in events:
        c = e["call"]
        ctx.count_case(json.dumps(e["case"].get("call", {}), sort_keys=True) + json.dumps(e["case"].get("stub", {})),
                       c["card"] != "UNARY_UNARY" or c["kw"] != _nocall()["kw"])
    ctx.sample({"call": events[5]["call"], "record": events[5]["rec"]})
    ctx.notes["programs"] = len(cases)
    ctx.notes["calls"] = len(events)
    ctx.notes["calls_with_explicit_empty_metadata"] = sum(1 for e in events if e["call"]["kw"]["metadata"] == "<empty>")
    ctx.notes["calls_with_zero_timeout"] = sum(1 for e in events if e["call"]["kw"]["tzero"])
    if not ctx.notes["calls_with_explicit_empty_metadata"] or not ctx.notes["calls_with_zero_timeout"]:
        raise common.MachineryError("vacuity: no call with an explicit empty metadata / zero timeout was made")
    ctx.notes["disagreements_checked"] = len(events)
    ctx.validate("Trace_Grpc", events, shard=500)
