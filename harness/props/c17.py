"""C17 Malformed or truncated input is rejected or isolated, never mis-decoded."""
import signal

from .. import dyn, gen, msgev
from ..dyn import F

from ..common import MachineryError

LEVEL = "fault_enumeration"


class Hang(Exception):
    pass


def _alarm(sig, frm):
    raise Hang()


_W = {}


def schema5():
    types = {"Inner": [F("x", 1, "sint64"), F("s", 2, "string")],
             "M5": [F("a", 1, "int32"), F("s", 2, "string"), F("m", 3, "message", msg="Inner"), F("r", 4, "fixed32", "repeated"),
                    F("d", 5, "double", "optional"), F("o_b", 6, "bool", "oneof", group="g"), F("o_s", 7, "bytes", "oneof", group="g"),
                    F("e", 8, "enum", enum="E"), F("mp", 9, "map", "map", kkind="int32", vkind="string")]}
    return {"types": types, "enums": {"E": gen.ENUM_E}}


def schema6():
    """pairs of a singular and a repeated field of the same scalar type (a decision taken for one must not leak to the other)"""
    fs, n = [], 1
    for k in ("int32", "sint64", "string", "fixed32", "bool", "double", "enum", "bytes"):
        fs.append(F("s_" + k, n, k, enum="E" if k == "enum" else ""))
        fs.append(F("r_" + k, n + 1, k, "repeated", enum="E" if k == "enum" else ""))
        n += 2
    fs += [F("m", n, "message", msg="Inner"), F("rm", n + 1, "message", "repeated", msg="Inner"),
           F("o_i", n + 2, "int32", "oneof", group="g"), F("o_s", n + 3, "string", "oneof", group="g"), F("opt", n + 4, "int32", "optional")]
    return {"types": {"Inner": [F("x", 1, "sint64"), F("s", 2, "string")], "M6": fs}, "enums": {"E": gen.ENUM_E}}


def occurrence_inputs(rnd, quick):
    """every ordered sequence of <= 2 (sampled: 3, 4) field occurrences over {field number of M6, an unknown number} x {varint, fixed64,
    length-delimited (2, 4, 8 payload bytes), fixed32}: fitting and non-fitting wire types next to each other, in both orders"""
    import itertools
    s6 = schema6()
    nums = [f["num"] for f in s6["types"]["M6"]] + [99]

    def tag(num, wt):
        v, out = (num << 3) | wt, []
        while True:
            out.append((v & 0x7F) | (0x80 if v > 0x7F else 0))
            v >>= 7
            if not v:
                return bytes(out)
    occ = []
    for n in nums:
        occ.append(tag(n, 0) + b"\x03")
        occ.append(tag(n, 1) + bytes([8, 4, 8, 4, 8, 4, 8, 4]))
        occ.append(tag(n, 5) + bytes([8, 4, 8, 4]))
        for pay in (bytes([8, 4]), bytes([8, 4, 8, 4]), bytes([8, 4, 8, 4, 8, 4, 8, 4])):
            occ.append(tag(n, 2) + bytes([len(pay)]) + pay)
    out = [("m6", "M6", o, "occ1") for o in occ]
    pairs = list(itertools.product(occ, repeat=2))
    if quick:
        pairs = rnd.sample(pairs, 9000)
    out += [("m6", "M6", a + b, "occ2") for a, b in pairs]
    for _ in range(3000 if quick else 60000):
        out.append(("m6", "M6", b"".join(rnd.choice(occ) for _ in range(rnd.choice([3, 3, 4]))), "occ3"))
    return out


def mal_event(args):
    which, ty, b, tag = args
    if which == "wide":
        w = msgev.world()
        schema, C = w["schema"], w["bp"]
        R = msgev.ref_classes()
    elif which == "m6":
        if "s6" not in _W:
            _W["s6"] = schema6()
            _W["bp6"] = dyn.make_bp(_W["s6"])
            _W["ref6"] = dyn.make_ref(_W["s6"])
        schema, C, R = _W["s6"], _W["bp6"], _W["ref6"]
    else:
        if "s5" not in _W:
            _W["s5"] = schema5()
            _W["bp5"] = dyn.make_bp(_W["s5"])
            _W["ref5"] = dyn.make_ref(_W["s5"])
        schema, C, R = _W["s5"], _W["bp5"], _W["ref5"]
    ev = {"op": "mal", "ty": ty, "b": list(b), "res": "ok", "typed": True, "note": "", "reenc": "ok", "obs": gen.fresh(schema, ty), "b2": [],
          "exc": "", "ref": "", "case": {"ty": ty, "tag": tag, "schema": which}}
    # non-termination = 5 s of the process's own CPU time in one parse (a loaded machine cannot trip it); 120 s wall as a backstop
    old = signal.signal(signal.SIGALRM, _alarm)
    oldp = signal.signal(signal.SIGPROF, _alarm)
    signal.setitimer(signal.ITIMER_PROF, 5.0)
    signal.setitimer(signal.ITIMER_REAL, 120.0)
    try:
        try:
            m = C[ty]().parse(bytes(b))
        except Hang:
            ev["res"] = "hang"
            m = None
        except Exception as ex:
            ev["res"], ev["exc"] = "raise", type(ex).__name__
            m = None
        if m is not None:
            try:
                ev["obs"] = dyn.obs_decoded(schema, m, ty)
            except Hang:
                ev["res"] = "hang"
            except Exception as ex:
                ev["typed"], ev["note"] = False, (type(ex).__name__ + ":" + str(ex))[:90]
            if ev["res"] == "ok":
                try:
                    ev["b2"] = list(bytes(m))
                except Hang:
                    ev["res"] = "hang"
                except Exception as ex:
                    ev["reenc"] = (type(ex).__name__ + ":" + str(ex))[:90]
    finally:
        signal.setitimer(signal.ITIMER_PROF, 0)
        signal.setitimer(signal.ITIMER_REAL, 0)
        signal.signal(signal.SIGALRM, old)
        signal.signal(signal.SIGPROF, oldp)
    try:
        r = R[ty]()
        r.ParseFromString(bytes(b))
        ev["ref"] = "accept"
    except Exception:
        ev["ref"] = "reject"
    return ev


SUBST = [0x00, 0x07, 0x0B, 0x0C, 0x0E, 0x80, 0xFF, 0x01, 0x7F]


def fault_inputs(ctx, quick):
    """valid encodings x truncation points, x single-byte substitutions of tag/length bytes, x wire-type flips"""
    w = msgev.world()
    schema, C = w["schema"], w["bp"]
    cases = msgev.boundary_cases(schema)
    rnd = ctx.rnd
    if quick:
        cases = [c for c in cases if hash(repr(c["val"])) % 5 == 0]
    cases += msgev.random_cases(schema, rnd, 100 if quick else 1500)
    out = []
    seen = set()
    for c in cases:
        try:
            b = bytes(dyn.conc_bp(schema, C, c["ty"], c["val"]))
        except Exception:
            continue
        if (c["ty"], b) in seen or len(b) == 0 or len(b) > 80:
            continue
        seen.add((c["ty"], b))
        out.append(("wide", c["ty"], b, "valid"))
        for k in range(len(b)):
            out.append(("wide", c["ty"], b[:k], "cut@%d" % k))
        # positions of tag / length bytes: walk the top-level fields
        pos = []
        i = 0
        while i < len(b):
            pos.append(i)
            t = b[i]
            j = i
            while b[j] & 0x80:
                j += 1
            j += 1
            wt = t & 7
            if wt == 0:
                while j < len(b) and b[j] & 0x80:
                    j += 1
                j += 1
            elif wt == 1:
                j += 8
            elif wt == 5:
                j += 4
            elif wt == 2:
                pos.append(j)
                ln, sh = 0, 0
                while b[j] & 0x80:
                    ln |= (b[j] & 0x7F) << sh
                    sh += 7
                    j += 1
                ln |= (b[j] & 0x7F) << sh
                j += 1 + ln
            else:
                break
            i = j
        for p in pos:
            if p >= len(b):
                continue
            for s in SUBST:
                if b[p] != s:
                    out.append(("wide", c["ty"], b[:p] + bytes([s]) + b[p + 1:], "subst@%d=%02x" % (p, s)))
            for wt in range(8):
                nb = (b[p] & 0xF8) | wt
                if nb != b[p]:
                    out.append(("wide", c["ty"], b[:p] + bytes([nb]) + b[p + 1:], "wt@%d=%d" % (p, wt)))
    return out


ALPHA = [0x00, 0x01, 0x02, 0x05, 0x08, 0x0A, 0x0B, 0x0C, 0x0D, 0x0E, 0x0F, 0x10, 0x12, 0x1A, 0x22, 0x25, 0x29, 0x30, 0x3A, 0x40, 0x4A, 0x61, 0x80, 0xFF]


def run(ctx):
    quick = ctx.tier == "quick"
    ctx.rule = ("the ideal reader model-checked on every byte string up to length 5 (quick) / 6 over a 12-symbol alphabet (MC_Wire: Total, Lossless, CutIsRejected, RejectedStays, AcceptedPrefixStable); decoder inputs: (i) valid Wide-family encodings x every truncation point x single-byte substitution of each tag/length byte "
                "from {00,07,0B,0C,0E,80,FF,01,7F} x every wire-type flip of each tag; (ii) all byte strings up to length 3 (quick) / 4 "
                "(thorough, sampled) over a 24-symbol tag/length/payload alphabet for schema M5; (iii) seeded random byte strings; "
                "non-trivial = not a valid encoding accepted by the spec decoder without unknown fields; distinct by (type, bytes)")
    ctx.assumptions = ["a parse that uses 5 s of CPU time (or 120 s of wall time) is counted as non-termination",
                       "the reference decoder's accept/reject decision is recorded per input (informational)",
                       "SpecDecode (spec/Codec.tla, Wire.tla) is the ideal decoder; rejecting any input is always allowed"]
    # (0) the criteria on the specification itself: the ideal reader explored on every byte string up to a bound
    alpha = "{0, 1, 2, 8, 9, 10, 11, 12, 13, 14, 128, 255}"
    cfg = ("SPECIFICATION Spec\nCONSTANTS\n  Alpha = %s\n  MaxLen = %d\nINVARIANT Total\nINVARIANT Lossless\nINVARIANT CutIsRejected\n"
           "PROPERTY RejectedStays\nPROPERTY AcceptedPrefixStable\nCHECK_DEADLOCK FALSE\n" % (alpha, 5 if quick else 6))
    ctx.mc("MC_Wire", cfg, name="MC_Wire", expect_actions=("Grow",), timeout=3000)
    r = ctx.mc("MC_Wire", "SPECIFICATION Spec\nCONSTANTS\n  Alpha = {1, 2, 8, 10}\n  MaxLen = 5\nINVARIANT NoRichInput\nCHECK_DEADLOCK FALSE\n",
               name="MC_Wire_vacuity", allow_violation=True, coverage=False)
    if r.violated != "NoRichInput":
        raise MachineryError("vacuity control: MC_Wire explores no accepted multi-field input")
    ins = fault_inputs(ctx, quick)
    import itertools
    for n in range(1, 4):
        for t in itertools.product(ALPHA, repeat=n):
            ins.append(("m5", "M5", bytes(t), "alpha"))
    rnd = ctx.rnd
    ins += occurrence_inputs(rnd, quick)
    if not quick:
        for _ in range(150000):
            ins.append(("m5", "M5", bytes(rnd.choice(ALPHA) for _ in range(4)), "alpha4"))
    for _ in range(3000 if quick else 100000):
        n = rnd.randint(1, 24)
        ins.append(("m5", "M5", bytes(rnd.getrandbits(8) for _ in range(n)), "random"))
        if rnd.random() < .5:
            ins.append(("m5", "M5", bytes(rnd.choice(ALPHA + [0x09, 0x11, 0x19, 0x21, 0x2D, 0x31, 0x38, 0x42, 0x4B, 0x4C]) for _ in range(n)), "random-alpha"))
    seen = set()
    uniq = []
    for x in ins:
        k = (x[0], x[1], x[2])
        if k not in seen:
            seen.add(k)
            uniq.append(x)
    events = ctx.pmap(mal_event, uniq)
    for x, e in zip(uniq, events):
        ctx.count_case((x[1], x[2]), x[3] != "valid")
    ctx.sample({"input": events[3]["b"], "tag": events[3]["case"]["tag"], "result": events[3]["res"], "exception": events[3]["exc"], "reference": events[3]["ref"]})
    ctx.sample({"input": events[-1]["b"], "result": events[-1]["res"], "reference": events[-1]["ref"]})
    wide = [e for e in events if e["case"]["schema"] == "wide"]
    m5 = [e for e in events if e["case"]["schema"] == "m5"]
    ctx.validate("Trace_Codec", wide, header={"schema": msgev.world()["schema"]}, shard=6000)
    ctx.validate("Trace_Codec", m5, header={"schema": schema5()}, shard=6000)
    m6 = [e for e in events if e["case"]["schema"] == "m6"]
    ctx.validate("Trace_Codec", m6, header={"schema": schema6()}, shard=6000)
    agree = sum(1 for e in events if (e["res"] == "raise") == (e["ref"] == "reject"))
    ctx.notes["inputs"] = len(events)
    ctx.notes["betterproto_raises"] = sum(1 for e in events if e["res"] == "raise")
    ctx.notes["reference_rejects"] = sum(1 for e in events if e["ref"] == "reject")
    ctx.notes["accept_reject_agreement_with_reference"] = agree


def redrive(ev):
    c = ev["case"]
    return mal_event((c["schema"], c["ty"], bytes(ev["b"]), c["tag"]))
