"""C16 Scalar codec primitives are total, canonical and mutually inverse."""
import io
import struct

from .. import absval as av
from .. import dyn
from ..common import MachineryError

LEVEL = "model_checking"

MC_VARINT = """SPECIFICATION Spec
CONSTANTS
  DigitAlpha = {%s}
  MaxLen = %d
  PadMax = %d
INVARIANT T_WellFormed
INVARIANT T_RoundTrip
INVARIANT T_Size
INVARIANT T_Canonical
INVARIANT T_NegTen
INVARIANT T_ZigZag
INVARIANT T_Kinds
INVARIANT T_Pad
INVARIANT T_TooLong
INVARIANT T_Eof
INVARIANT T_Bytes
INVARIANT T_TC
CHECK_DEADLOCK FALSE
"""
MC_BIGINT = """SPECIFICATION Spec
CONSTANTS
  Bound = %d
  Ks = {1, 2, 7, 10, 128, 1000}
INVARIANT S_FromTo
INVARIANT S_Add
INVARIANT S_Sub
INVARIANT S_Cmp
INVARIANT S_Mul
INVARIANT S_Div
INVARIANT S_Signed
INVARIANT S_Bits
INVARIANT S_TC16
INVARIANT S_Zig
INVARIANT S_Bytes
INVARIANT L_Enc
INVARIANT L_Dec
CHECK_DEADLOCK FALSE
"""


def _exc(fn, *a):
    try:
        return "ok", fn(*a)
    except BaseException as ex:      # noqa: any exception counts as a rejection
        if isinstance(ex, (KeyboardInterrupt, SystemExit, MemoryError)):
            raise
        return "exc", type(ex).__name__


def enc_event(n):
    import betterproto as bp
    res, out = _exc(bp.encode_varint, n)
    sres, size = _exc(bp.size_varint, n)
    s = io.BytesIO()
    dres, _ = _exc(bp.dump_varint, n, s)
    return {"op": "enc", "n": av.rawint(n), "res": res, "out": list(out) if res == "ok" else [], "exc": out if res != "ok" else "",
            "sizeres": sres, "size": size if sres == "ok" else -1, "dump": list(s.getvalue()) if dres == "ok" else [255, 255, 255]}


class _ReadOnly:
    """a stream with read(n) only (plus seek/tell for the harness)"""
    def __init__(self, b):
        self._b, self._p = bytes(b), 0

    def read(self, n=-1):
        if n is None or n < 0:
            n = len(self._b) - self._p
        out = self._b[self._p:self._p + n]
        self._p += len(out)
        return out

    def seek(self, p):
        self._p = p

    def tell(self):
        return self._p


class _Stalling(_ReadOnly):
    """a non-blocking source: the read at offset `at` finds no data yet and answers None once (the io contract for "nothing
    available right now"); asked again, it delivers"""
    def __init__(self, b, at):
        _ReadOnly.__init__(self, b)
        self._at, self.stalled = at, False

    def read(self, n=-1):
        if self._p == self._at and not self.stalled:
            self.stalled = True
            return None
        return _ReadOnly.read(self, n)


def dec_event(args):
    import betterproto as bp
    b, pos, fn = args
    if fn.startswith("load_stall"):
        # C16 says nothing on how a stall is reported: treating it as the end of the input (an exception) is as good as waiting.
        # What it does say is that a value that *is* returned is the decoding of the bytes consumed.  So: a rejection is judged
        # as the decoding of the bytes delivered before the stall, an answer as the decoding of the whole input.
        at = int(fn[len("load_stall"):])
        s = _Stalling(b, at)
        res, r = _exc(bp.load_varint, s)
        if res != "ok" and s.stalled:
            return {"op": "dec", "fn": "load", "b": list(b[:at]), "pos": 0, "res": res, "val": [], "next": -1, "exc": r, "stall": at, "whole": list(b)}
        if res == "ok":
            val, raw = r
            nxt = s.tell() if raw == b[:s.tell()] else -2
            return {"op": "dec", "fn": "load", "b": list(b), "pos": 0, "res": res, "val": av.mag(val) if val >= 0 else [], "next": nxt, "exc": "", "stall": at, "whole": list(b)}
        return {"op": "dec", "fn": "load", "b": list(b), "pos": 0, "res": res, "val": [], "next": -1, "exc": r, "stall": at, "whole": list(b)}
    if fn == "decode_ba":
        # the caller's receive buffer: one bytearray, decoded from, refilled in place, decoded from again (the second answer is judged)
        buf = bytearray(b"\xac\x02\x07")
        _exc(bp.decode_varint, buf, 0)
        buf[:] = b
        res, r = _exc(bp.decode_varint, buf, pos)
        val, nxt = r if res == "ok" else (0, -1)
        fn = "decode"
    elif fn == "decode":
        res, r = _exc(bp.decode_varint, b, pos)
        val, nxt = r if res == "ok" else (0, -1)
    else:
        # the stream kinds a caller may hand in: in-memory, a buffered reader with a small buffer (a varint may straddle
        # two buffer fills; peek() returns only what is buffered), and an object that offers nothing but read(n)
        if fn == "load_buf":
            s = io.BufferedReader(io.BytesIO(b), buffer_size=4)
        elif fn == "load_min":
            s = _ReadOnly(b)
        else:
            s = io.BytesIO(b)
        s.seek(pos)
        res, r = _exc(bp.load_varint, s)
        if res == "ok":
            val, raw = r
            nxt = s.tell()
            if raw != b[pos:nxt]:
                nxt = -2          # raw bytes reported differ from what was consumed
        else:
            val, nxt = 0, -1
    fn = "load" if fn.startswith("load") else fn
    return {"op": "dec", "fn": fn, "b": list(b), "pos": pos, "res": res, "val": av.mag(val) if res == "ok" and val >= 0 else [],
            "next": nxt, "exc": r if res != "ok" else ""}


_CLS = {}


def _classes():
    if not _CLS:
        fields = [dyn.F("f_" + k, i + 1, k, "optional") for i, k in enumerate(dyn.SCALARS) if k not in ("string", "bytes")]
        fields += [dyn.F("hi_" + k, n, k, "optional") for k, n in (("int32", 16), ("sint64", 2047), ("fixed64", 2048), ("bool", 300000))]
        fields.append(dyn.F("f_enum", 40, "enum", "optional", enum="E"))       # an (open) enum is a varint-encoded int32 too
        schema = {"types": {"S": fields}, "enums": {"E": [["Z", 0], ["A", 1], ["N", -1], ["MIN", -2**31], ["MAX", 2**31 - 1]]}}
        _CLS["schema"] = schema
        _CLS["bp"] = dyn.make_bp(schema)
        _CLS["ref"] = dyn.make_ref(schema)
    return _CLS


def field_events(args):
    """one optional scalar field set to v, serialised by betterproto and by the reference; both decoded back"""
    fname, v = args
    c = _classes()
    f = next(x for x in c["schema"]["types"]["S"] if x["name"] == fname)
    kind = f["kind"]
    if kind in ("float", "double"):
        a = list(struct.pack("<f" if kind == "float" else "<d", v))
    elif kind == "bool":
        a = bool(v)
    else:
        a = av.rawint(v)
    out = []
    for impl in ("bp", "ref"):
        try:
            if impl == "bp":
                b = bytes(c["bp"]["S"](**{fname: v}))
            else:
                m = c["ref"]["S"]()
                setattr(m, fname, v)
                b = m.SerializeToString()
            res = "ok"
        except Exception as ex:
            b, res = b"", type(ex).__name__
        out.append({"op": "field", "impl": impl, "kind": kind, "num": f["num"], "v": a, "res": res, "out": list(b)})
        if res != "ok":
            continue
        # decode the other implementation's bytes
        try:
            if impl == "ref":
                got = getattr(c["bp"]["S"]().parse(b), fname)
                dimpl = "bp"
            else:
                m = c["ref"]["S"]()
                m.ParseFromString(b)
                got = getattr(m, fname)
                dimpl = "ref"
            if kind in ("float", "double"):
                ga = list(struct.pack("<f" if kind == "float" else "<d", got))
            elif kind == "bool":
                ga = bool(got) if isinstance(got, bool) else "notbool"
            else:
                ga = av.rawint(got)
            out.append({"op": "fielddec", "impl": dimpl, "kind": kind, "num": f["num"], "b": list(b), "res": "ok", "v": ga})
        except Exception as ex:
            out.append({"op": "fielddec", "impl": dimpl, "kind": kind, "num": f["num"], "b": list(b), "res": type(ex).__name__, "v": a})
    return out


def boundary_ints():
    s = set()
    for k in list(range(0, 71, 7)) + [8, 16, 31, 32, 33, 62, 63, 64]:
        for d in (-2, -1, 0, 1, 2):
            s.add((1 << k) + d)
            s.add(-(1 << k) + d)
    return sorted(x for x in s if -(1 << 63) - 3 <= x < (1 << 64))


def kind_values(kind, rnd, nrand):
    if kind == "bool":
        return [False, True]
    if kind in ("float", "double"):
        base = [0.0, -0.0, 1.0, -1.5, float("inf"), float("-inf"), float("nan"), 1e-45, 3.4028234663852886e38, 5e-324,
                1.7976931348623157e308, 0.1, 2.5e-8]
        if kind == "float":
            base = [struct.unpack("<f", struct.pack("<f", x))[0] if abs(x) < 3.5e38 or x != x or abs(x) == float("inf") else 1.0 for x in base]
            base += [struct.unpack("<f", struct.pack("<I", rnd.getrandbits(32)))[0] for _ in range(nrand)]
        else:
            base += [struct.unpack("<d", struct.pack("<Q", rnd.getrandbits(64)))[0] for _ in range(nrand)]
        return base
    lo, hi = dyn.RANGE[kind]
    vals = {lo, hi, 0, 1, lo + 1, hi - 1}
    for k in range(0, 65):
        for d in (-1, 0, 1):
            for s in (1, -1):
                x = s * (1 << k) + d
                if lo <= x <= hi:
                    vals.add(x)
    for _ in range(nrand):
        x = rnd.getrandbits(rnd.randint(1, 64))
        x = -x if rnd.random() < .5 else x
        vals.add(min(max(x, lo), hi))
    return sorted(vals)


def run(ctx):
    quick = ctx.tier == "quick"
    ctx.rule = ("encode/size/dump events for every integer below the exhaustive bound, +-2 around every 2^k boundary and seeded "
                "random 64-bit values; decode events for every byte string of length <=2, the (cont)^k term family up to 12 bytes and "
                "random strings <=11 bytes; one-field messages of every scalar kind from betterproto and the reference, cross-decoded. "
                "A case is non-trivial when it is an integer != 0 / a non-empty byte string; distinct by value.")
    ctx.assumptions = ["struct.pack gives the IEEE-754 bit pattern of a Python float (transport)",
                       "TLC/SANY 1.8 and CommunityModules Json are sound",
                       "google.protobuf 7.x python is the reference; its events must satisfy the spec as well"]
    # (1) the spec's own theorems, exhaustively in small scope
    if quick:
        ctx.mc("MC_Varint", MC_VARINT % ("0, 1, 127", 10, 1), name="MC_Varint_q", expect_actions=("Grow", "Flip", "PadMore"))
        ctx.mc("MC_BigInt", MC_BIGINT % 200, name="MC_BigInt_q", expect_actions=("PickA", "PickB", "EncStep", "DecStep"))
    else:
        # (four digit values up to 8 digits, three up to the full 10; the product of both was 8 M heavy states: hours on a loaded machine)
        ctx.mc("MC_Varint", MC_VARINT % ("0, 1, 64, 127", 8, 3), name="MC_Varint_t4", expect_actions=("Grow", "Flip", "PadMore"), timeout=6000)
        ctx.mc("MC_Varint", MC_VARINT % ("0, 1, 127", 10, 3), name="MC_Varint_t3", expect_actions=("Grow", "Flip", "PadMore"), timeout=6000)
        ctx.mc("MC_BigInt", MC_BIGINT % 600, name="MC_BigInt_t", expect_actions=("PickA", "PickB", "EncStep", "DecStep"), timeout=3000)
    # (2) real code -> events
    rnd = ctx.rnd
    bound = 1 << (14 if quick else 21)
    ints = list(range(bound)) + boundary_ints() + [-(1 << 63) - k for k in (1, 2, 1000, 1 << 70)]
    for _ in range(3000 if quick else 60000):
        x = rnd.getrandbits(rnd.randint(1, 64))
        ints.append(x if rnd.random() < .6 else max(-x, -(1 << 63)))
    ints = sorted(set(ints))
    events = ctx.pmap(enc_event, ints)
    for n in ints:
        ctx.count_case(("enc", n), n != 0)
    decs = []
    alpha = range(256)
    for a in alpha:
        decs.append((bytes([a]), 0, "decode"))
        decs.append((bytes([a]), 0, "load"))
    two = [bytes([a, b]) for a in alpha for b in (alpha if not quick else list(range(0, 256, 5)) + [127, 128, 129, 255])]
    for b in two:
        decs.append((b, 0, "decode" if (b[0] + b[1]) % 2 else "load"))
        if b[0] < 128:
            decs.append((b, 1, "decode"))
    fam = [0x00, 0x01, 0x7F, 0x80, 0x81, 0xFF]
    for k in range(0, 12):
        for c in (0x80, 0x81, 0xFF):
            for t in fam:
                b = bytes([c] * k + [t])
                decs.append((b, 0, "load"))
                decs.append((b + b"\x05", 0, "decode"))
                decs.append((bytes([c] * k), 0, "decode"))
    decs.append((b"", 0, "decode"))
    decs.append((b"", 0, "load"))
    for _ in range(4000 if quick else 200000):
        ln = rnd.randint(1, 11)
        b = bytes((rnd.getrandbits(8) | (0x80 if rnd.random() < .7 else 0)) for _ in range(ln))
        decs.append((b, rnd.randint(0, max(0, ln - 1)) if rnd.random() < .3 else 0, rnd.choice(["decode", "load"])))
    # every load case again on a small-buffered reader and on a read()-only stream; long runs of varints back to back
    decs += [(b, pos, "load_buf") for b, pos, fn in decs if fn == "load"] + [(b, pos, "load_min") for b, pos, fn in decs if fn == "load" and len(b) % 3 == 0]
    decs += [(b, pos, "decode_ba") for b, pos, fn in decs if fn == "decode" and (len(b) + (b[0] if b else 0)) % 5 == 0]
    # ... and on a non-blocking source that has no data yet at one point inside (or right before) the varint
    decs += [(b, 0, "load_stall%d" % at) for b, pos, fn in decs if fn == "load" and pos == 0 and 0 < len(b) <= 11 and (b[0] + len(b)) % 4 == 0
             for at in range(len(b))]
    for n in ints[:: (7 if quick else 3)]:
        if -(1 << 63) <= n < (1 << 64):
            import betterproto as bp   # canonical encodings as decoder input: produced by the spec-checked encoder events above
            decs.append((bytes(enc_event(n)["out"]), 0, "decode"))
    events += ctx.pmap(dec_event, decs)
    for d in decs:
        ctx.count_case(("dec", d), len(d[0]) > 0)
    fcases = []
    c = _classes()
    for f in c["schema"]["types"]["S"]:
        for v in kind_values(f["kind"], rnd, 20 if quick else 2000):
            fcases.append((f["name"], v))
    fev = []
    for lst in ctx.pmap(field_events, fcases, procs=1 if len(fcases) < 4000 else None):
        fev += lst
    for fc in fcases:
        ctx.count_case(("field", fc[0], repr(fc[1])))
    events += fev
    ctx.sample({"enc": events[5]})
    ctx.sample({"dec": next(e for e in events if e["op"] == "dec" and len(e["b"]) > 3)})
    ctx.sample({"field": fev[7]})
    verdicts = ctx.validate("Trace_Varint", events, shard=20000)
    # reference events must satisfy the spec: a disagreement there is a machinery problem, not a finding
    bad_ref = [c for cl, c in ctx.violations if isinstance(c, dict) and c.get("impl") == "ref"]
    if bad_ref:
        raise MachineryError("the reference implementation disagrees with spec/Varint.tla: %r" % bad_ref[:2])
    ctx.notes["events_by_op"] = {op: sum(1 for e in events if e["op"] == op) for op in ("enc", "dec", "field", "fielddec")}
    ctx.notes["exhaustive_encode_below"] = bound


def redrive(ev):
    if ev["op"] == "enc":
        return enc_event(av.unint(ev["n"]))
    if ev["op"] == "dec" and "stall" in ev:
        return dec_event((bytes(ev["whole"]), 0, "load_stall%d" % ev["stall"]))
    if ev["op"] == "dec":
        return dec_event((bytes(ev["b"]), ev["pos"], ev["fn"]))
    return None
