"""The Wide schema family as *plugin-generated* classes: the schema (data) is printed as a .proto file, compiled by the real
protoc plugin from the tree under test (default options) and imported; the resulting classes are used by the message-level
drivers exactly like the classes built through the public field API (harness/dyn.py).  What the plugin writes into the field
metadata (optional=, group=, wraps=, map types, annotations, enum classes) thereby takes part in every message-level check.
Transport only."""
import importlib
import os
import sys

from . import common, dyn, protoc

_G = {}
SKIP_TYPES = ("TOneP",)
# a few fields carry [deprecated = true] in the printed schema (the generated class then gets extra code in __post_init__)
DEPRECATED = {("TOne", "g_sfixed64"), ("TOne", "h_b"), ("TImpl", "i_uint32"), ("TMix", "j"), ("TOpt", "o_bool")}            # (the optional=True flavour of oneof members only exists in the pydantic output)


def proto_text(schema, package):
    out = ['syntax = "proto3";', "package %s;" % package, 'import "google/protobuf/timestamp.proto";', 'import "google/protobuf/duration.proto";',
           'import "google/protobuf/wrappers.proto";', ""]
    for ename, members in schema.get("enums", {}).items():
        out.append("enum %s {" % ename)
        if any(v == w for i, (_, v) in enumerate(members) for _, w in members[i + 1:]):
            out.append("  option allow_alias = true;")
        for n, v in members:
            out.append("  %s = %d;" % (n, v))
        out.append("}")

    def tname(f, k):
        if k == "message":
            return f["msg"]
        if k == "enum":
            return f["enum"]
        if k == "timestamp":
            return "google.protobuf.Timestamp"
        if k == "duration":
            return "google.protobuf.Duration"
        if k == "wrap":
            return "google.protobuf." + dyn.WRAPS[f["vkind"]]
        return k
    for ty, fields in schema["types"].items():
        if ty in SKIP_TYPES:
            continue
        out.append("message %s {" % ty)
        groups = []
        for f in fields:
            if f["card"] == "oneof" and f["group"] not in groups:
                groups.append(f["group"])
        for f in fields:
            if f["card"] == "oneof":
                continue
            if f["card"] == "map":
                out.append("  map<%s, %s> %s = %d;" % (f["kkind"], tname(f, f["vkind"]), f["name"], f["num"]))
            else:
                pre = {"repeated": "repeated ", "optional": "optional "}.get(f["card"], "")
                out.append("  %s%s %s = %d%s;" % (pre, tname(f, f["kind"]), f["name"], f["num"], " [deprecated = true]" if (ty, f["name"]) in DEPRECATED else ""))
        for g in groups:
            out.append("  oneof %s {" % g)
            for f in fields:
                if f["card"] == "oneof" and f["group"] == g:
                    out.append("    %s %s = %d%s;" % (tname(f, f["kind"]), f["name"], f["num"], " [deprecated = true]" if (ty, f["name"]) in DEPRECATED else ""))
            out.append("  }")
        out.append("}")
    return "\n".join(out) + "\n"


def build(schema, tag="wide"):
    """compile and import; returns {type name: class, enum name: class}.  Raises MachineryError when the plugin or the import
    fails (whether the plugin works at all is C03's subject, not the message-level checks')."""
    key = (tag, id(schema))
    if key in _G:
        return _G[key]
    work = os.path.join(common.WORKROOT, "genworld-%s-%d" % (tag, os.getpid()))
    pkg = "vw%s%d" % (tag, os.getpid())
    protoc._tools(work)
    r = protoc.generate(work, "w", {"%s.proto" % pkg: proto_text(schema, pkg)})
    if r["rc"] != 0:
        raise common.MachineryError("the plugin could not compile the Wide schema: " + r["err"][-800:])
    root = r["root"]
    # the output directory `gen` is a package below root; give it a unique name so that several worlds can coexist
    uniq = "gen_%s_%d" % (tag, os.getpid())
    os.rename(os.path.join(root, "gen"), os.path.join(root, uniq))
    sys.path.insert(0, root)
    try:
        mod = importlib.import_module("%s.%s" % (uniq, pkg))
    except Exception as ex:
        raise common.MachineryError("the generated Wide package does not import: %s: %s" % (type(ex).__name__, str(ex)[:400]))
    classes = {}
    for ty in list(schema["types"]) + list(schema.get("enums", {})):
        if ty in SKIP_TYPES:
            continue
        if not hasattr(mod, ty):
            raise common.MachineryError("the generated Wide package has no class %s" % ty)
        classes[ty] = getattr(mod, ty)
    _G[key] = classes
    _G[key + ("root",)] = work
    return classes


def cleanup():
    for k, v in list(_G.items()):
        if k[-1] == "root":
            common.rmtree(v)
