"""spec -> code for the faithful Message model (spec/MessageObj.tla): TLC model checking of the property set of a check,
TLC-simulated walks replayed on the real class with the raw object state compared after every step (drift detection),
and the same real executions logged as histories for Trace_Msg (the property is decided on the real observations)."""
import copy
import glob
import os
import pickle

import betterproto
from betterproto import PLACEHOLDER, encode_varint

from . import absval as av
from . import common, dyn, hist, tlaval
from .common import MachineryError
from .dyn import F

SCHEMA = {"types": {"Inner": [F("x", 1, "int32"), F("ys", 2, "int32", "repeated")],
                    "T": [F("f1", 1, "int32"), F("f2", 2, "string", "oneof", group="g1"), F("f3", 3, "message", "oneof", group="g1", msg="Inner"),
                          F("f4", 4, "int32", "oneof", group="g2"), F("f5", 5, "string", "oneof", group="g2"), F("f6", 6, "int32", "optional"),
                          F("f7", 7, "message", msg="Inner"), F("f8", 8, "wrap", vkind="int32")]},
          "enums": {"E0": [["Z", 0]]}}
FIELDS = ["f1", "f2", "f3", "f4", "f5", "f6", "f7", "f8"]
_W = {}


def classes():
    if "C" not in _W:
        _W["C"] = dyn.make_bp(SCHEMA)
    return _W["C"]


def cfg(props, invs, maxlevel):
    return ("SPECIFICATION Spec\nCONSTANT MaxLevel = %d\n%s%sCONSTRAINT Bounded\nCONSTRAINT LevelBound\nVIEW ViewObj\nCHECK_DEADLOCK FALSE\n"
            % (maxlevel, "".join("INVARIANT %s\n" % i for i in invs), "".join("PROPERTY %s\n" % p for p in props)))


def model_check(ctx, invs, props, quick):
    r = ctx.mc("MessageObj", cfg(props, invs, 4 if quick else 6), name="MessageObj_" + ctx.pid,
               expect_actions=("ASet", "AGet", "AParse", "ABytes", "ADeepCopy", "ACopy", "APickle", "ANew1", "ASetIn", "AGetIn", "AAppendIn"),
               timeout=2400 if quick else 6000)
    return r


# ---- abstract (model) values -> hist abstract values / real objects
def aval(v):
    k = v["k"]
    if k == "i":
        return av.aint(v["v"])
    if k == "s":
        return {"k": "str", "cp": av.cps(v["v"])}
    if k == "none":
        return {"k": "unset"}
    if k == "m":
        o = v["m"]
        kw = {f: s for f, s in o["slot"].items() if s["k"] != "ph"}
        if not kw:
            return {"k": "msg", "m": {"x": av.aint(0), "ys": {"k": "list", "xs": []}}, "fresh": True}
        return {"k": "msg", "m": {"x": aval(kw["x"]) if "x" in kw else av.aint(0), "ys": aval(kw["ys"]) if "ys" in kw else {"k": "list", "xs": []}}, "fresh": False}
    if k == "r":
        return {"k": "list", "xs": [aval(x) for x in v["xs"]]}
    raise AssertionError(v)


def field_aval(f, v):
    a = aval(v)
    if f == "f8" and a["k"] == "int":
        return {"k": "wrapv", "v": a}
    return a


def conc(v):
    k = v["k"]
    if k in ("i", "s"):
        return v["v"]
    if k == "none":
        return None
    if k == "r":
        return [conc(x) for x in v["xs"]]
    if k == "m":
        o = v["m"]
        kw = {f: conc(s) for f, s in o["slot"].items() if s["k"] != "ph"}
        return classes()["Inner"](**kw)
    raise AssertionError(v)


def enc_entries(es):
    out = b""
    for e in es:
        v = e["v"]
        if v["k"] == "i":
            out += encode_varint(e["n"] << 3) + encode_varint(v["v"])
        elif v["k"] == "s":
            b = v["v"].encode()
            out += encode_varint(e["n"] << 3 | 2) + encode_varint(len(b)) + b
        elif v["k"] == "l":
            b = enc_entries(v["l"])
            out += encode_varint(e["n"] << 3 | 2) + encode_varint(len(b)) + b
        else:
            raise AssertionError(e)
    return out


def raw(m, ty):
    """raw (private) state of the real object, in the model's vocabulary -- drift diagnostics only"""
    d = vars(m)
    slot = {}
    Inner = classes()["Inner"]
    for f in (FIELDS if ty == "T" else ["x", "ys"]):
        v = d[f]
        if v is PLACEHOLDER:
            slot[f] = {"k": "ph"}
        elif v is None:
            slot[f] = {"k": "none"}
        elif isinstance(v, int) and not isinstance(v, bool):
            slot[f] = {"k": "i", "v": int(v)}
        elif isinstance(v, str):
            slot[f] = {"k": "s", "v": v}
        elif isinstance(v, list):
            slot[f] = {"k": "r", "xs": [{"k": "i", "v": int(x)} for x in v]}
        elif isinstance(v, Inner):
            slot[f] = {"k": "m", "m": raw(v, "Inner")}
        else:
            slot[f] = {"k": "?", "v": repr(v)}
    cur = {g: (c if c is not None else "-") for g, c in d["_group_current"].items()}
    unk = []
    b = d["_unknown_fields"]
    i = 0
    while i + 1 < len(b):
        unk.append({"n": b[i] >> 3, "v": {"k": "i", "v": b[i + 1]}})
        i += 2
    return {"slot": slot, "sow": d["_serialized_on_wire"], "cur": cur if cur else [], "unk": unk}


def apply_action(T, m, act, args, e, pure=False):
    """one model action on a real object; fills the history event e; returns the (possibly new) object"""
    if act == "Init":
        m = T()
        e["op"] = "new"
    elif act == "ANew1":
        m = T(**{args[0]: conc(args[1])})
        e["op"], e["kw"] = "new", [[args[0], field_aval(args[0], args[1])]]
    elif act == "ANew2":
        m = T(**{args[0]: conc(args[1]), args[2]: conc(args[3])})
        kw = sorted([[args[0], field_aval(args[0], args[1])], [args[2], field_aval(args[2], args[3])]], key=lambda x: FIELDS.index(x[0]))
        e["op"], e["kw"] = "new", kw
    elif act == "ASet":
        e["op"], e["f"], e["v"] = "set", args[0], field_aval(args[0], args[1])
        setattr(m, args[0], conc(args[1]))
    elif act == "AGet":
        e["op"], e["f"] = "get", args[0]
        getattr(m, args[0])
    elif act == "ASetIn":
        e["op"], e["f"], e["x"], e["v"] = "setin", args[0], "x", aval(args[1])
        getattr(m, args[0]).x = conc(args[1])
    elif act == "AGetIn":
        e["op"], e["f"], e["x"] = "getin", args[0], args[1]
        getattr(getattr(m, args[0]), args[1])
    elif act == "AAppendIn":
        e["op"], e["f"], e["x"], e["v"] = "appendin", args[0], "ys", av.aint(1)
        getattr(m, args[0]).ys.append(1)
    elif act == "AParse":
        b = enc_entries(args[0])
        e["op"], e["b"] = "parse", list(b)
        m.parse(b)
    elif act == "ABytes":
        e["op"] = "bytes"
        bytes(m)
    elif act in ("ADeepCopy", "ACopy", "APickle"):
        e["op"] = {"ADeepCopy": "deepcopy", "ACopy": "copy", "APickle": "pickle"}[act]
        c = copy.deepcopy(m) if act == "ADeepCopy" else copy.copy(m) if act == "ACopy" else pickle.loads(pickle.dumps(m))
        if not pure:
            e["eq"] = bool(c == m)
            e["samebytes"] = bytes(c) == bytes(m)
        m = c
    else:
        raise MachineryError("unknown action " + act)
    return m


def replay_walk(path):
    """two real objects follow the walk: `pure` performs exactly the model's actions (its raw state is compared with the
    model's after every step); `seen` additionally has its public observation vector read after every step (history for
    Trace_Msg) -- observation materialises lazy defaults, which is why the two are kept apart"""
    steps = tlaval.parse_sim_file(path)
    T = classes()["T"]
    pure = seen = None
    log = []
    drift = None
    for n, (act, args, st) in enumerate(steps):
        e = {"op": "observe", "f": "", "x": "", "v": {"k": "unset"}, "kw": [], "b": [], "res": "ok", "eq": True, "samebytes": True}
        try:
            pure = apply_action(T, pure, act, args, dict(e), pure=True)
        except AttributeError:
            pass
        try:
            seen = apply_action(T, seen, act, args, e)
        except AttributeError:
            e["res"] = "AttributeError"
        if drift is None:
            try:
                real = raw(pure, "T")
            except Exception as ex:     # the private representation differs from the model's (renamed / restructured): drift, not an error
                real = {"slot": "unobservable: %s: %s" % (type(ex).__name__, ex)}
            if real != st["obj"]:
                drift = {"step": n, "action": [act] + [repr(a)[:60] for a in args],
                         "diff": {k: [repr(real[k])[:300], repr(st["obj"][k])[:300]] for k in real if real[k] != st["obj"].get(k)}}
        e["obs"] = hist.observe(SCHEMA, seen, "T")
        log.append(e)
    return {"ty": "T", "log": log, "case": {"ty": "T", "walk": [[a] + [repr(x)[:80] for x in ar] for a, ar, _ in steps]}}, drift, len(steps)


def replay(ctx, nsim, depth=14):
    simdir = os.path.join(ctx.work, "mo_sim")
    os.makedirs(simdir, exist_ok=True)
    cfgp = common.write_cfg(os.path.join(ctx.work, "MO_sim.cfg"), "SPECIFICATION Spec\nCONSTANT MaxLevel = 99\nCHECK_DEADLOCK FALSE\n")
    files = []
    per = max(1, nsim // 8)
    import concurrent.futures as cf

    def one(k):
        return common.tlc("MessageObj", cfg=cfgp, workers=1, simulate="file=%s/w%d,num=%d" % (simdir, k, per), depth=depth,
                          seed=ctx.seed * 100 + k + 1, timeout=900)
    with cf.ThreadPoolExecutor(max_workers=8) as ex:
        list(ex.map(one, range(8)))
    files = sorted(glob.glob(simdir + "/w*"))
    if len(files) < per:
        raise MachineryError("TLC simulation of MessageObj produced %d walks" % len(files))
    events, drifts, steps = [], [], 0
    for ev, d, n in ctx.pmap(replay_walk, files):
        events.append(ev)
        steps += n
        if d:
            drifts.append(d)
    for ev in events:
        ctx.count_case(repr(ev["case"]["walk"]), len(ev["log"]) > 2)
    ctx.validate("Trace_Msg", events, header={"schema": SCHEMA}, shard=200, weight=lambda e: len(e["log"]))
    ctx.notes["model_walks_replayed"] = len(events)
    ctx.notes["model_steps_compared"] = steps
    ctx.notes["model_drift_cases"] = len(drifts)
    ctx.notes["model_drift_samples"] = drifts[:3]
    if drifts:
        print("NOTE: %d of %d replayed walks deviate from spec/MessageObj.tla (model drift; criteria are decided on the real observations)"
              % (len(drifts), len(events)))
    return events
